"""Reference model of the documented ordered-map semantics (C16): a list of [key, value].

Every function returns the list of *acceptable outcomes* of one operation on `items`:
    ('ok', new_items, retval)           -- retval is compared unless it is ANY
    ('raise', {exception class names}, items_after)
For a single operation items_after is the unchanged list ("a rejected operation changes
nothing"); multi-item operations (update/extend) may have applied the prefix before the
refused item.  Where the documentation admits two readings, both outcomes are listed.
"""

ANY = ('<any>',)


def keys_of(items):
    return [p[0] for p in items]


def add_outcomes(items, k, v, after=False, index=None, pos_key=None, replace=True, refused=False):
    keys = keys_of(items)
    errs = set()
    if refused:
        errs.add('ValueError')
    if index is not None and pos_key is not None:
        errs.add('ValueError')
    elif pos_key is not None and pos_key not in keys:
        errs.add('KeyError')
    if k in keys and not replace:
        errs.add('KeyError')
    if errs:
        # the statement says a rejected operation changes nothing; it does not name the exception type, so any
        # of the two families the implementation uses is accepted for any rejection (a validator refusal keeps
        # the validator's own type)
        if not refused:
            errs = {'KeyError', 'ValueError'}
        return [('raise', errs, items)]
    if k in keys:
        if index is None and pos_key is None:
            # "When replacing, the position will be left un-changed unless a location is
            # specified explicitly."
            return [('ok', [[a, (v if a == k else b)] for a, b in items], ANY)]
        rest = [p for p in items if p[0] != k]
        if pos_key is not None:
            if pos_key == k:
                # Position relative to the key itself is not documented: a clean refusal or
                # any resulting position is accepted (content and the order of the other
                # keys are still checked).
                outs = [('raise', {'KeyError', 'ValueError'}, items)]
                for j in range(len(rest) + 1):
                    outs.append(('ok', rest[:j] + [[k, v]] + rest[j:], ANY))
                return outs
            j = keys_of(rest).index(pos_key) + (1 if after else 0)
            return [('ok', rest[:j] + [[k, v]] + rest[j:], ANY)]
        # Relocation by numeric index: the index may be counted after or before the key
        # is taken out; either reading of the docstring is accepted.
        j = index + (1 if after else 0)
        a = min(j, len(rest))
        old = keys.index(k)
        b = max(0, min(j - 1 if j > old else j, len(rest)))
        return [('ok', rest[:x] + [[k, v]] + rest[x:], ANY) for x in sorted({a, b})]
    if pos_key is not None:
        j = keys.index(pos_key) + (1 if after else 0)
    elif index is not None:
        j = min(index + (1 if after else 0), len(items))
    else:
        j = len(items)
    return [('ok', items[:j] + [[k, v]] + items[j:], ANY)]


def set_outcomes(items, k, v, refused=False):
    return add_outcomes(items, k, v, refused=refused)


def del_outcomes(items, k):
    if k not in keys_of(items):
        return [('raise', {'KeyError'}, items)]
    return [('ok', [p for p in items if p[0] != k], ANY)]


def pop_outcomes(items, k, has_default, default):
    if k not in keys_of(items):
        if has_default:
            return [('ok', items, default)]
        return [('raise', {'KeyError'}, items)]
    val = dict(map(tuple, items))[k]
    return [('ok', [p for p in items if p[0] != k], val)]


def pop_at_outcomes(items, i):
    n = len(items)
    if not (-n <= i < n):
        return [('raise', {'IndexError', 'KeyError'}, items)]
    j = i % n
    return [('ok', items[:j] + items[j + 1:], items[j][1])]


def popitem_outcomes(items):
    if not items:
        return [('raise', {'KeyError'}, items)]
    # which pair goes is not documented: any one may
    return [('ok', items[:j] + items[j + 1:], (items[j][0], items[j][1])) for j in range(len(items))]


def setdefault_outcomes(items, k, v, refused=False):
    if k in keys_of(items):
        return [('ok', items, dict(map(tuple, items))[k])]
    if refused:
        return [('raise', {'ValueError'}, items)]
    return [('ok', items + [[k, v]], v)]


def sequence_outcomes(items, pairs, replace, refused_fn):
    """update()/extend(): items applied one by one like a plain store; stops at the first
    refused item with the prefix applied."""
    cur = items
    for (k, v) in pairs:
        outs = add_outcomes(cur, k, v, replace=replace, refused=refused_fn(v))
        kind = outs[0][0]
        if kind == 'raise':
            return [('raise', outs[0][1], cur)]
        cur = outs[0][1]
    return [('ok', cur, ANY)]


def clear_outcomes(items):
    return [('ok', [], ANY)]


def sort_outcomes(items, reverse):
    return [('ok', sorted(items, key=lambda p: p[0], reverse=reverse), ANY)]


def reverse_outcomes(items):
    return [('ok', items[::-1], ANY)]
