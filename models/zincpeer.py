"""Stub peer that emits small annotated ZINC documents: it knows the span of the header, of
every quoted string / URI, of every escape, of every bracket pair and of every tag / column
name, so the channel can place faults whose post-condition is guaranteed-broken.

A document is built from pieces; `Doc.text` is the text, `Doc.spans` a list of
(kind, start, end) with kind in
    header ver str uri esc lopen lclose dopen dclose gopen gclose name date time
"""


class Doc(object):
    def __init__(self):
        self.parts = []
        self.spans = []
        self.pos = 0
        self.depth = 0
        self.max_depth = 0
        self.has_v3 = False
        self.inner = []

    def emit(self, s, kind=None):
        start = self.pos
        self.parts.append(s)
        self.pos += len(s)
        if kind:
            self.spans.append((kind, start, self.pos))
        return start

    @property
    def text(self):
        return ''.join(self.parts)


LONG = 'the quick brown fox jumps over the lazy dog 0123456789'
STR_BODIES = [LONG, LONG[:30], u'\U0001F600 non-BMP', 'abc', '', 'a b', 'x,y', 'q\\"q', 'l\\nm', 'p\\\\p', 'd\\$d', u'caf\\u00e9', u'été', 'tab\\there',
              '[not a list]', '{k:v}', '<<g>>', 'N', 'ver:\\"2.0\\"', u'中', '2020-01-01']
URI_BODIES = ['http://example.org/a/rather/long/path/to/a/resource?with=query', 'http://x/', 'a\\`b', 'p?q=1&r=2', 'h\\:p', u'u\\u00e9', '']
NAMES = ['a', 'b', 'c', 'dis', 'siteRef', 'n_1', 'curVal', 'x9']
TZ = ['2020-01-31T12:00:00+10:00 Brisbane', '2020-06-01T00:00:00Z UTC', '2021-03-28T01:30:00+01:00 Berlin',
      '1999-12-31T23:59:59.999-05:00 New_York', '2020-01-01T00:00:00+00:00 GMT+0', '2020-01-01T00:00:00Z']
PLAIN = ['1', '-3.5', '12kW', '1.5e3', '4_000', '5%', 'INF', '-INF', 'NaN', 'T', 'F', 'N', 'M', 'R', '@a.b', '@r-1 "Dis"',
         '2020-02-29', '12:34:56', '23:59:59.123456', 'C(1.5,-2.5)', 'C(0,0)', u'10°C', '-0', '1e-3']


def gen_scalar(r, d, v3, depth=0):
    """Emit one scalar into Doc d."""
    kinds = ['plain', 'plain', 'plain', 'str', 'str', 'uri', 'dt']
    if v3:
        kinds += ['na', 'xstr']
        if depth < 2:
            kinds += ['list', 'dict']
        if depth < 1:
            kinds += ['grid']
    k = r.choice(kinds)
    if k == 'plain':
        p = r.choice(PLAIN)
        d.emit(p, 'date' if p[:4].isdigit() and p[4:5] == '-' else 'time' if p[2:3] == ':' and p[:2].isdigit() else None)
    elif k == 'dt':
        p = r.choice(TZ)
        start = d.emit(p)
        d.spans.append(('date', start, start + 10))      # the date part of a date-time
    elif k == 'str':
        emit_str(r, d)
    elif k == 'uri':
        body = r.choice(URI_BODIES)
        start = d.emit('`' + body + '`', 'uri')
        _mark_escapes(d, start + 1, body)
    elif k == 'na':
        d.emit('NA')
        d.has_v3 = True
    elif k == 'xstr':
        d.emit(r.choice(['hex', 'b64', 'Foo']) + '(')
        if d.parts[-1].startswith('hex'):
            start = d.emit('"' + r.choice(['deadbeef', '00', '']) + '"', 'str')
        elif d.parts[-1].startswith('b64'):
            start = d.emit('"' + r.choice(['aGVsbG8=', 'QQ==', '']) + '"', 'str')
        else:
            emit_str(r, d)
        d.emit(')')
        d.has_v3 = True
    elif k == 'list':
        d.has_v3 = True
        d.depth += 1
        d.max_depth = max(d.max_depth, d.depth)
        d.emit('[', 'lopen')
        n = r.choice([0, 1, 2, 3])
        for j in range(n):
            if j:
                d.emit(r.choice([',', ', ']))
            gen_scalar(r, d, v3, depth + 1)
        d.emit(']', 'lclose')
        d.depth -= 1
    elif k == 'dict':
        d.has_v3 = True
        d.depth += 1
        d.max_depth = max(d.max_depth, d.depth)
        d.emit('{', 'dopen')
        n = r.choice([0, 1, 2, 3])
        for j in range(n):
            if j:
                d.emit(' ')
            d.emit(r.choice(NAMES), 'name')
            if r.random() < 0.6:
                d.emit(':')
                gen_scalar(r, d, v3, depth + 1)
        d.emit('}', 'dclose')
        d.depth -= 1
    elif k == 'grid':
        d.has_v3 = True
        d.depth += 1
        d.max_depth = max(d.max_depth, d.depth)
        d.emit('<<', 'gopen')
        d.emit('ver:"')
        vstart = d.emit('3.0')
        d.emit('"\n')
        d.emit('q', 'name')
        d.emit('\n')
        d.has_v3 = False
        gen_scalar(r, d, True, depth + 2)
        d.inner.append((vstart, vstart + 3, d.has_v3))     # (span of the inner version, inner rows hold a 3.0-only value)
        d.has_v3 = True
        d.emit('\n')
        d.emit('>>', 'gclose')
        d.depth -= 1


def _mark_escapes(d, body_start, body):
    i = 0
    while i < len(body):
        if body[i] == '\\' and i + 1 < len(body):
            ln = 6 if body[i + 1] in 'uU' else 2
            d.spans.append(('esc', body_start + i, body_start + i + ln))
            i += ln
        else:
            i += 1


def emit_str(r, d):
    body = r.choice(STR_BODIES)
    start = d.emit('"' + body + '"', 'str')
    _mark_escapes(d, start + 1, body)
    return start


def gen_meta(r, d, v3):
    n = r.choice([0, 0, 1, 2])
    for _ in range(n):
        d.emit(' ')
        d.emit(r.choice(NAMES), 'name')
        if r.random() < 0.6:
            d.emit(':')
            gen_scalar(r, d, v3, depth=1)     # no nested grid on a header line


def gen_doc(r, ver=None, max_cols=3, max_rows=2):
    d = Doc()
    ver = ver or r.choice(['2.0', '3.0', '3.0', '3.0'])
    v3 = ver != '2.0'
    d.ver = ver
    h = d.emit('ver:', None)
    d.emit('"%s"' % ver, 'ver')
    gen_meta(r, d, v3)
    d.emit('\n')
    d.spans.append(('header', 0, d.pos))
    ncols = r.randrange(1, max_cols + 1)
    names = r.sample(NAMES, ncols)
    for j, nm in enumerate(names):
        if j:
            d.emit(',')
        d.emit(nm, 'name')
        if r.random() < 0.3:
            gen_meta(r, d, v3)
    d.emit('\n')
    for _ in range(r.randrange(0, max_rows + 1)):
        for j in range(ncols):
            if j:
                d.emit(',')
            if r.random() < 0.15 and ncols > 1:
                continue          # empty cell = null (a lone empty cell would be a blank line = grid separator)
            gen_scalar(r, d, v3)
        d.emit('\n')
    return d


SCALARS_2 = PLAIN + TZ + ['"abc"', '"q\\"q"', u'"caf\\u00e9"', '`http://x/`', '"l\\nm"']
SCALARS_3 = SCALARS_2 + ['NA', 'hex("deadbeef")', 'b64("aGVsbG8=")', '[1,2]', '[]', '{a b:1}', '{}', '[1,[2,"x"]]',
                         '{a:{b:1}}', '<<ver:"3.0"\nq\n1\n>>']
