#!/venv/bin/python
"""Regenerates MANIFEST.json from one table so that it stays valid and consistent."""
import json, os
HERE = os.path.dirname(os.path.abspath(__file__))

NA = {
 'C01': 'parse(dump(g)) == g is a pure function of (grid, version) with no I/O on the success path and only idempotent memo state; nothing for a schedule or fault to vary - deciding it is input generation, not simulation',
 'C02': 'same as C01 for the JSON pair (json.dumps/loads + regex cascade): stateless, I/O-free, single call',
 'C03': 'reader correctness on every well-formed spelling is a for-all-documents claim needing an independent grammar-directed writer; no fault or interleaving occurs in it (corrupted documents are C09)',
 'C04': 'conformance of emitted text to the Haystack grammar needs a spec-derived reader over all grids; pure function of the input, no seam involved',
 'C05': 'as C03 for JSON; "input object never modified" is a single-call purity claim with no concurrent party',
 'C06': 'as C04 for JSON',
 'C07': 'transcoding, dump purity and parse-dump idempotence are compositions of pure functions of the input value; no history, schedule or fault',
 'C08': 'containment of every code point / metacharacter string is exhaustive input enumeration over the escape tables; no schedule, fault or history',
 'C11': 'the compiled filter is a deterministic function of (filter text, grid); its only history/schedule dependence (cache, namespace) is C13 and is decided there; compiler-vs-semantics equivalence for all programs is translation validation, not simulation',
 'C12': 'absence of side effects for all adversarial filter texts is a for-all-programs claim observed with audit hooks (runtime monitoring + payload generation); no interleaving or fault is part of it',
 'C17': 'hszinc never reads the clock; DST transitions are properties of the data; the zone maps are built idempotently; the statement is an exhaustive zones x instants table sweep on a healthy host',
 'C18': 'order axioms over immutable version values: finite algebra over pairs and triples, no state',
 'C19': 'equality/hash laws over immutable values and pairs of grids: pure functions of the inputs, no state',
 'C20': 'operator transparency of Quantity: a table of operator x operand pairs, no state',
}

CHECKS = {}

def add(pid, engine, category, text, note, technique, ref):
    CHECKS[pid] = {
        'property_id': pid,
        'quick_cmd': './check %s --tier quick' % pid,
        'thorough_cmd': './check %s --tier thorough' % pid,
        'evidence_file': 'evidence/%s.json' % pid,
        'replay_cmd_template': './check %s --replay {path}' % pid,
        'engine': engine,
        'level_claimed': {'category': category, 'text': text, 'design_ref': ref},
        'level_note': note,
        'technique': technique,
    }

PENDING = {}

def build():
    from manifest_table import fill
    fill(add, PENDING)
    na = [{'property_id': k, 'reason': v} for k, v in sorted(NA.items())]
    for k, v in sorted(PENDING.items()):
        na.append({'property_id': k, 'reason': v})
    na.sort(key=lambda d: d['property_id'])
    m = {
        'version': 1,
        'setup_cmd': '/venv/bin/python -c "import pyparsing, pytz, six, iso8601; print(\'deps ok\')" && ./check selftest-smoke',
        'hooks': {
            'guard': 'HSZINC_VERIF',
            'enable': 'no hook exists: every seam (sys.settrace, sys.stdout, pyparsing lock attributes, lru_cache re-wrap, threading primitives) is reachable from outside; checks import hszinc from VERIF_REPO (default /repo) working tree',
            'baseline_off_cmd': 'cd /repo && /venv/bin/python -m pytest -q -p no:cacheprovider --timeout=900',
            'source_commits': [],
            'add_only': True,
        },
        'engines': [
            {'name': 'hist', 'path': 'sim/runner.py + models/', 'serves_properties': ['C10', 'C14', 'C15', 'C16'],
             'kind_free_text': 'seeded history search: generated operation-and-refusal sequences stepped in lock-step with an executable reference model, per-run isolation, delta-debugging minimiser, replay files'},
            {'name': 'sched', 'path': 'sim/sched.py', 'serves_properties': ['C13'],
             'kind_free_text': 'baton-passing deterministic thread scheduler (sys.settrace pre-emption points, simulated locks and stdout), random/PCT/replay strategies'},
            {'name': 'wire', 'path': 'sim/channel.py', 'serves_properties': ['C09', 'C10'],
             'kind_free_text': 'writer -> faulty channel -> reader pipeline with torn/lost/duplicated/reordered/flipped/spliced/version-skewed documents and faulted stdout'},
        ],
        'checks': [CHECKS[k] for k in sorted(CHECKS)],
        'not_applicable': na,
        'notes': 'Technique family: deterministic simulation with fault injection. See DESIGN.md. known_findings.json lists recorded/fixed defects.',
    }
    with open(os.path.join(HERE, 'MANIFEST.json'), 'w') as f:
        json.dump(m, f, indent=1)
    return m

if __name__ == '__main__':
    import sys
    sys.path.insert(0, HERE)
    m = build()
    try:
        import jsonschema
        jsonschema.validate(m, json.load(open('/root/.vp/MANIFEST.schema.json')))
        print('MANIFEST valid: %d checks, %d not applicable' % (len(m['checks']), len(m['not_applicable'])))
    except ImportError:
        print('written (jsonschema not importable here)')
