"""One integer decides everything.

VERIF_SEED -> run index i -> run_seed = H(property, VERIF_SEED, i); every consumer
draws from its own labelled sub-stream so that adding a probe or a fault kind never
shifts another stream.  Nothing here reads a clock or the process hash seed.
"""
import hashlib
import random


def derive(*parts):
    h = hashlib.sha256()
    for p in parts:
        h.update(repr(p).encode('utf-8'))
        h.update(b'\x00')
    return int.from_bytes(h.digest()[:8], 'big')


def stream(run_seed, label):
    return random.Random(derive('stream', run_seed, label))


def digest(obj):
    """Stable digest of a JSON-like event log (lists/tuples/str/int/None/bool/float)."""
    h = hashlib.sha256()
    h.update(repr(obj).encode('utf-8', 'backslashreplace'))
    return h.hexdigest()[:16]
