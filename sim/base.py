"""Defaults shared by the checks."""
import copy

from . import runner


class BaseCheck(object):
    pid = '?'
    level = 'exploration'
    isolation = 'inproc'
    run_timeout_s = 60.0
    step_unit = 'operations'
    tiers = {'quick': {'budget_s': 40, 'max_runs': 10 ** 9},
             'thorough': {'budget_s': 900, 'max_runs': 10 ** 9}}
    rule = ''
    components = {}
    assumptions = []
    min_ops = 1

    def setup(self):
        self.hszinc = runner.use_repo()

    def describe(self, case):
        return case

    def candidates(self, case):
        """Generic structural shrinking: drop chunks of the operation list, then let the
        check simplify arguments."""
        ops = case.get('ops', [])
        for sub in runner.ddmin_list(ops, self.min_ops):
            c = copy.deepcopy(case)
            c['ops'] = copy.deepcopy(sub)
            yield c
        for c in self.simplify(case):
            yield c

    def simplify(self, case):
        return ()
