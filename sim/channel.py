"""The wire between a writer and the reader (engine `wire`): takes the document a writer
produced and delivers what a faulty transport or storage would.  Every fault is a pure
function of (text, parameters); the generator draws the parameters, the case file stores
the delivered text itself, so a replay needs nothing else.

Fault kinds
    truncate   torn / short write: text[:k]
    drop       lost fragment: text[:a] + text[b:]
    dup        duplicated fragment: text[:b] + text[a:b] + text[b:]
    swap       two adjacent fragments reordered
    flip       one character replaced (random bit, same-class substitution, control char)
    insert     stray metacharacter inserted
    splice     head of this document + tail of another in-flight document
    crlf       text-mode transport rewrites \\n as \\r\\n (or strips \\r)
    charset    encoded as one charset, decoded as another (mojibake / U+FFFD)
    bom        byte-order mark prepended
    nul        NUL or other control padding inserted
    verskew    header rewritten to the peer's version
"""

META = ['"', '`', '[', ']', '{', '}', '<<', '>>', ',', ':', '\\', '\n', ' ', '(', ')', '@', '$', '-', '.', 'T', 'N', 'M', 'R']
CONTROL = ['\x00', '\x01', '\x07', '\x1b', '\x7f', '\t', '\r', '\x0b', '\x0c', u'\u00a0', u'\ufeff', u'\ud800']
VERSIONS = ['1.0', '2.0', '2.5', '3.0', '3.0.0', '4.0', '3', '', 'x', '2.0a']


def truncate(text, k):
    return text[:k]


def drop(text, a, b):
    return text[:a] + text[b:]


def dup(text, a, b):
    return text[:b] + text[a:b] + text[b:]


def swap(text, a, b, c):
    return text[:a] + text[b:c] + text[a:b] + text[c:]


def flip(text, at, to):
    return text[:at] + to + text[at + 1:]


def insert(text, at, s):
    return text[:at] + s + text[at:]


def splice(text, at, other, frm):
    return text[:at] + other[frm:]


def crlf(text, how):
    if how == 'add':
        return text.replace('\r\n', '\n').replace('\n', '\r\n')
    if how == 'strip':
        return text.replace('\r', '')
    return text.replace('\n', '\r')      # 'cr': old-Mac line ends


def charset(text, enc, dec):
    return text.encode(enc, 'replace').decode(dec, 'replace')


def bom(text):
    return u'\ufeff' + text


def verskew(text, to):
    """Rewrite the declared version of the (first) header."""
    if text.startswith('ver:"'):
        end = text.find('"', 5)
        if end > 0:
            return 'ver:"%s"%s' % (to, text[end + 1:])
    return text


def flip_choices(ch):
    """Same-class substitutions (digit->digit, hex->hex, letter->letter) plus bit flips."""
    out = []
    if ch.isdigit():
        out += ['0', '9', '5', 'a', '-']
    if ch.isalpha():
        out += [ch.swapcase(), 'z', 'Z', 'T', 'u', '0']
    for bit in (0, 1, 5, 6):
        try:
            out.append(chr(ord(ch) ^ (1 << bit)))
        except ValueError:
            pass
    out += ['"', '\\', ' ', '\n']
    return [c for c in out if c != ch]


def random_fault(r, text, others):
    """Draw one fault for `text`; returns (kind, new_text, params)."""
    n = len(text)
    kind = r.choice(['truncate', 'drop', 'drop', 'dup', 'swap', 'flip', 'flip', 'flip', 'insert', 'insert',
                     'splice', 'crlf', 'charset', 'bom', 'nul', 'verskew'])
    if n == 0:
        kind = 'insert'
    if kind == 'truncate':
        k = r.randrange(n)
        return kind, truncate(text, k), {'at': k}
    if kind == 'drop':
        a = r.randrange(n)
        b = min(n, a + r.choice([1, 1, 1, 2, 3, 5, 9]))
        return kind, drop(text, a, b), {'a': a, 'b': b}
    if kind == 'dup':
        a = r.randrange(n)
        b = min(n, a + r.choice([1, 2, 3, 5, 9, 17]))
        return kind, dup(text, a, b), {'a': a, 'b': b}
    if kind == 'swap':
        a = r.randrange(n)
        b = min(n, a + r.choice([1, 2, 4]))
        c = min(n, b + r.choice([1, 2, 4]))
        return kind, swap(text, a, b, c), {'a': a, 'b': b, 'c': c}
    if kind == 'flip':
        at = r.randrange(n)
        to = r.choice(flip_choices(text[at]) + [r.choice(CONTROL)])
        return kind, flip(text, at, to), {'at': at, 'to': to}
    if kind == 'insert':
        at = r.randrange(n + 1)
        s = r.choice(META + CONTROL[:6])
        return kind, insert(text, at, s), {'at': at, 's': s}
    if kind == 'splice':
        other = r.choice(others) if others else text
        at = r.randrange(n + 1)
        frm = r.randrange(len(other) + 1)
        return kind, splice(text, at, other, frm), {'at': at, 'from': frm}
    if kind == 'crlf':
        how = r.choice(['add', 'strip', 'cr'])
        return kind, crlf(text, how), {'how': how}
    if kind == 'charset':
        enc, dec = r.choice([('utf-8', 'latin-1'), ('latin-1', 'utf-8'), ('utf-8', 'ascii'), ('utf-16', 'latin-1'),
                             ('utf-8', 'cp1252')])
        return kind, charset(text, enc, dec), {'enc': enc, 'dec': dec}
    if kind == 'bom':
        return kind, bom(text), {}
    if kind == 'nul':
        at = r.randrange(n + 1)
        s = r.choice(['\x00', '\x00\x00\x00', '\x1a', '\x04'])
        return kind, insert(text, at, s), {'at': at, 's': s}
    to = r.choice(VERSIONS)
    return 'verskew', verskew(text, to), {'to': to}
