"""Sweep driver shared by every check: seeded runs on a pool of forked workers, exact
per-run isolation, minimisation, replay files, known findings, evidence.

A check object provides
    pid, level, isolation ('fork' | 'inproc'), tiers {tier: {budget_s, max_runs}}
    setup()                      -- once in the parent, before any fork (imports the repo)
    generate(run_seed, i, tier)  -- pure: run seed -> JSON-able case
    execute(case)                -- pure function of the case and the code under test; returns
                                    {viol, digest, stats, distinct, nontrivial, steps}
    candidates(case)             -- iterable of structurally smaller cases (for shrinking)
    describe(case)               -- short JSON-able rendering for evidence samples
"""
import argparse
import collections
import json
import os
import pickle
import select
import signal
import subprocess
import sys
import time
import traceback

from . import rng
from . import findings

VERIF = os.path.dirname(os.path.dirname(os.path.abspath(__file__)))
REPO = os.environ.get('VERIF_REPO', '/repo')


def use_repo():
    """Make `import hszinc` resolve to the tree under test (VERIF_REPO, default /repo)."""
    root = os.path.abspath(REPO)
    if sys.path[0] != root:
        sys.path.insert(0, root)
    import hszinc
    got = os.path.dirname(os.path.dirname(os.path.abspath(hszinc.__file__)))
    if os.path.realpath(got) != os.path.realpath(root):
        raise RuntimeError('hszinc imported from %s, expected %s' % (got, root))
    return hszinc


# ---------------------------------------------------------------- isolation

class HarnessError(Exception):
    pass


class ChildTimeout(HarnessError):
    """The forked child did not finish within the wall watchdog.  For most checks that is a harness
    error; a check whose property includes termination may turn it into a verdict (on_timeout)."""


def _plain(o):
    """Results cross process boundaries pickled: an object of the code under test inside a violation detail
    must not be rebuilt (by code that may be broken) in the parent; it travels as its repr."""
    if o is None or isinstance(o, (bool, int, float, str, bytes)):
        return o
    if type(o) is dict:
        return {(k if isinstance(k, (str, int, float, bool, type(None))) else repr(k)): _plain(v) for k, v in o.items()}
    if type(o) in (list, tuple, set, frozenset):
        return type(o)(_plain(x) for x in o)
    try:
        return repr(o)
    except Exception:
        return '<unprintable %s>' % type(o).__name__


def _write_all(fd, data):
    view = memoryview(data)
    while view:
        n = os.write(fd, view)
        view = view[n:]


def run_forked(fn, arg, timeout_s=60.0):
    """Execute fn(arg) in a forked child that starts from this process's exact state and
    is thrown away afterwards.  A stuck or dead child is a harness error, never a verdict."""
    r, w = os.pipe()
    pid = os.fork()
    if pid == 0:
        code = 0
        try:
            os.close(r)
            try:
                res = _plain(fn(arg))
                data = pickle.dumps(('ok', res))
            except BaseException:
                data = pickle.dumps(('err', traceback.format_exc()))
            _write_all(w, data)
        except BaseException:
            code = 3
        finally:
            os._exit(code)
    os.close(w)
    chunks = []
    deadline = time.monotonic() + timeout_s
    try:
        while True:
            left = deadline - time.monotonic()
            if left <= 0:
                os.kill(pid, signal.SIGKILL)
                os.waitpid(pid, 0)
                raise ChildTimeout('child exceeded wall watchdog of %ss' % timeout_s)
            rl, _, _ = select.select([r], [], [], left)
            if not rl:
                continue
            b = os.read(r, 1 << 16)
            if not b:
                break
            chunks.append(b)
    finally:
        os.close(r)
    _, status = os.waitpid(pid, 0)
    if not chunks:
        raise HarnessError('child died without a result (status %r)' % status)
    kind, val = pickle.loads(b''.join(chunks))
    if kind == 'err':
        raise HarnessError('exception in harness code inside child:\n' + val)
    return val


def _read_exact(fd, n, deadline=None):
    chunks = []
    while n > 0:
        if deadline is not None:
            left = deadline - time.monotonic()
            if left <= 0:
                raise HarnessError('zygote did not answer in time')
            rl, _, _ = select.select([fd], [], [], left)
            if not rl:
                continue
        b = os.read(fd, n)
        if not b:
            return None
        chunks.append(b)
        n -= len(b)
    return b''.join(chunks)


class Zygote(object):
    """A long-lived pre-initialised copy of this process (check.zygote_init() has run in it,
    e.g. lazily built grammars are warm) that forks one throw-away grandchild per run.  Every
    run routed through it starts from the identical post-init state."""

    def __init__(self, check, kind=None):
        self.check = check
        c2z_r, c2z_w = os.pipe()
        z2c_r, z2c_w = os.pipe()
        pid = os.fork()
        if pid == 0:
            try:
                os.close(c2z_w)
                os.close(z2c_r)
                if kind is None:
                    check.zygote_init()
                else:
                    check.zygote_init(kind)       # a variant of the pre-initialised state (e.g. a full cache)
                while True:
                    hdr = _read_exact(c2z_r, 4)
                    if not hdr:
                        break
                    case = pickle.loads(_read_exact(c2z_r, int.from_bytes(hdr, 'big')))
                    try:
                        tmo = getattr(check, 'hang_timeout_s', 30.0) if case.get('hang_probe') \
                            else getattr(check, 'run_timeout_s', 60.0)
                        out = ('ok', run_forked(check.execute, case, tmo))
                    except HarnessError as e:
                        out = ('herr', str(e))
                    data = pickle.dumps(out)
                    _write_all(z2c_w, len(data).to_bytes(4, 'big') + data)
            except BaseException:
                traceback.print_exc()
            finally:
                os._exit(0)
        os.close(c2z_r)
        os.close(z2c_w)
        self.pid, self.w, self.r = pid, c2z_w, z2c_r

    def run(self, case):
        data = pickle.dumps(case)
        _write_all(self.w, len(data).to_bytes(4, 'big') + data)
        deadline = time.monotonic() + (getattr(self.check, 'hang_timeout_s', 30.0) if case.get('hang_probe')
                                       else getattr(self.check, 'run_timeout_s', 60.0)) + 30.0
        hdr = _read_exact(self.r, 4, deadline)
        if not hdr:
            raise HarnessError('zygote died')
        kind, val = pickle.loads(_read_exact(self.r, int.from_bytes(hdr, 'big'), deadline))
        if kind == 'herr':
            if 'exceeded wall watchdog' in val:
                raise ChildTimeout(val)
            raise HarnessError(val)
        return val

    def close(self):
        try:
            os.close(self.w)
            os.close(self.r)
            os.waitpid(self.pid, 0)
        except OSError:
            pass


_ZYGOTE = {}


def isolated(check, case, timeout_s=None):
    try:
        res = _isolated(check, case, timeout_s)
    except ChildTimeout:
        if not hasattr(check, 'on_timeout'):
            raise
        res = check.on_timeout(case, _isolated)      # may re-raise: then it stays a harness error
    if res.get('viol') and hasattr(check, 'confirm'):
        res = check.confirm(case, res, _isolated)
    return res


PRISTINE = [False]      # set by main() once the sweep is over: every later execution starts from a forked, unused child


def _with_prelude(check, case):
    """A violation that needs what earlier runs left behind in the interpreter (a process-wide memo, an interned
    object): the earlier cases are part of the replay and are executed first, in the same child."""
    for p in case['prelude']:
        try:
            check.execute(p)
        except Exception:
            pass
    return check.execute({k: v for k, v in case.items() if k != 'prelude'})


def _isolated(check, case, timeout_s=None):
    t = timeout_s or getattr(check, 'run_timeout_s', 60.0)
    if case.get('hang_probe'):
        t = getattr(check, 'hang_timeout_s', t)
    if case.get('prelude') is not None:
        return run_forked(lambda c: _with_prelude(check, c), case, t * 4)
    if PRISTINE[0] and check.isolation != 'fork':
        return run_forked(check.execute, case, t)
    if check.isolation == 'fork' or os.environ.get('VERIF_FORCE_FORK'):
        if hasattr(check, 'zygote_init') and check.wants_zygote(case):
            kind = check.zygote_kind(case) if hasattr(check, 'zygote_kind') else None
            z = _ZYGOTE.get((os.getpid(), kind))
            if z is None:
                z = _ZYGOTE[(os.getpid(), kind)] = Zygote(check, kind)
            return z.run(case)
        return run_forked(check.execute, case, t)
    return check.execute(case)


# ---------------------------------------------------------------- aggregation

class Agg(object):
    DISTINCT_CAP = 1500000

    def __init__(self):
        self.runs = 0
        self.steps = 0
        self.nontrivial = 0
        self.stats = collections.Counter()
        self.distinct = set()
        self.distinct_nt = set()
        self.saturated = False
        self.viols = []          # (i, case, viol)
        self.errors = []         # harness errors (text)
        self.samples = []
        self.digests = {}
        self.max = collections.Counter()

    def add(self, i, case, res, keep_digest, check):
        self.runs += 1
        self.steps += res.get('steps', 0)
        for k, v in res.get('stats', {}).items():
            self.stats[k] += v
        for k, v in res.get('max', {}).items():
            if v > self.max[k]:
                self.max[k] = v
        nt = bool(res.get('nontrivial'))
        if nt:
            self.nontrivial += 1
        if len(self.distinct) < self.DISTINCT_CAP:
            for d in res.get('distinct', ()):
                h = rng.derive(d)
                self.distinct.add(h)
                if nt:
                    self.distinct_nt.add(h)
        else:
            self.saturated = True
        if keep_digest:
            self.digests[i] = res.get('digest')
        if res.get('viol') and len(self.viols) < 200:
            self.viols.append((i, case, _plain(res['viol'])))
        if len(self.samples) < 2 and nt:
            self.samples.append({'run': i, 'case': check.describe(case),
                                 'outcome': res.get('outcome', 'ok' if not res.get('viol') else 'violation')})

    def merge(self, o):
        self.runs += o.runs
        self.steps += o.steps
        self.nontrivial += o.nontrivial
        self.stats.update(o.stats)
        for k, v in o.max.items():
            if v > self.max[k]:
                self.max[k] = v
        self.distinct |= o.distinct
        self.distinct_nt |= o.distinct_nt
        self.saturated |= o.saturated
        self.viols.extend(o.viols)
        self.errors.extend(o.errors)
        self.samples.extend(o.samples)
        self.digests.update(o.digests)


def _worker(check, w, nworkers, tier, seed, max_runs, deadline, keep_digests, only_class, stop_flag=None):
    agg = Agg()
    i = w
    while i < max_runs and time.monotonic() < deadline:
        if stop_flag is not None and stop_flag[0]:
            break
        run_seed = rng.derive(check.pid, seed, i)
        try:
            case = check.generate(run_seed, i, tier)
            if only_class and case.get('class') != only_class:
                i += nworkers
                continue
            res = isolated(check, case)
            if os.environ.get('VERIF_ROUNDTRIP'):
                # a replay file is the case after a JSON round trip (sorted keys): it must denote the same run
                res2 = isolated(check, json.loads(json.dumps(case, sort_keys=True)))
                if res2.get('digest') != res.get('digest') or bool(res2.get('viol')) != bool(res.get('viol')):
                    agg.errors.append('run %d: case does not survive a JSON round trip (digest %s vs %s)'
                                      % (i, res.get('digest'), res2.get('digest')))
            case = res.pop('case_override', None) or case      # a check may hand back a reduced witness
            agg.add(i, case, res, keep_digests, check)
        except HarnessError as e:
            agg.errors.append('run %d: %s' % (i, e))
            if len(agg.errors) > 20:
                break
        if agg.viols and stop_flag is not None:
            stop_flag[0] = 1          # --first: one witness is enough (sensitivity self-test)
            break
        if len(agg.viols) >= 40:
            break
        i += nworkers
    return agg


def sweep(check, tier, seed, workers, budget_s, max_runs, keep_digests=False, only_class=None, first=False):
    deadline = time.monotonic() + budget_s
    stop_flag = None
    if first:
        import mmap
        stop_flag = mmap.mmap(-1, 1)      # shared with the forked workers
    procs = []
    for w in range(workers):
        r, wfd = os.pipe()
        pid = os.fork()
        if pid == 0:
            code = 0
            try:
                os.close(r)
                try:
                    agg = _worker(check, w, workers, tier, seed, max_runs, deadline,
                                  keep_digests, only_class, stop_flag)
                except BaseException:
                    agg = Agg()
                    agg.errors.append('worker %d crashed:\n%s' % (w, traceback.format_exc()))
                _write_all(wfd, pickle.dumps(agg))
            except BaseException:
                code = 3
            finally:
                os._exit(code)
        os.close(wfd)
        procs.append((pid, r))
    total = Agg()
    hard = deadline + max(120.0, getattr(check, 'run_timeout_s', 60.0) * 2)
    bufs = {r: [] for _, r in procs}
    open_fds = set(bufs)
    while open_fds:
        left = hard - time.monotonic()
        if left <= 0:
            break
        rl, _, _ = select.select(list(open_fds), [], [], min(left, 5.0))
        for r in rl:
            b = os.read(r, 1 << 20)
            if b:
                bufs[r].append(b)
            else:
                open_fds.discard(r)
    for pid, r in procs:
        if r in open_fds:
            try:
                os.kill(pid, signal.SIGKILL)
            except OSError:
                pass
            total.errors.append('worker pid %d exceeded hard deadline' % pid)
        os.close(r)
        os.waitpid(pid, 0)
        data = b''.join(bufs[r])
        if r not in open_fds:
            if data:
                total.merge(pickle.loads(data))
            else:
                total.errors.append('worker pid %d returned nothing' % pid)
    return total


# ---------------------------------------------------------------- shrinking

def shrink(check, case, clause, budget_s=30.0, log=None):
    """Delta debugging: keep a candidate only if the same clause still fails when it is
    re-executed in isolation."""
    deadline = time.monotonic() + budget_s
    tried = 0

    def fails(c):
        nonlocal tried
        tried += 1
        try:
            res = isolated(check, c)
        except HarnessError:
            return False
        v = res.get('viol')
        return bool(v) and v.get('clause') == clause

    cur = case
    progress = True
    while progress and time.monotonic() < deadline:
        progress = False
        try:
            for cand in _candidates(check, cur):
                if time.monotonic() >= deadline:
                    break
                if fails(cand):
                    cur = cand
                    progress = True
                    break
        except Exception:
            # a bug in a check's candidate generator must not lose the violation: report what we have
            if log is not None:
                log['shrink_error'] = traceback.format_exc()[-600:]
            break
    if log is not None:
        log['shrink_attempts'] = tried
    return cur


def _candidates(check, cur):
    pre = cur.get('prelude')
    if pre is None:
        for c in check.candidates(cur):
            yield c
        return
    for sub in ddmin_list(pre, 1):
        yield dict(cur, prelude=sub)
    bare = {k: v for k, v in cur.items() if k != 'prelude'}
    for c in check.candidates(bare):
        yield dict(c, prelude=pre)
    if len(pre) <= 3:
        for j, pc in enumerate(pre):
            for c in check.candidates(pc):
                yield dict(cur, prelude=pre[:j] + [c] + pre[j + 1:])


def ddmin_list(items, min_len=0):
    """Candidate sub-lists for delta debugging, biggest removals first."""
    n = len(items)
    if n <= min_len:
        return
    chunk = n // 2
    while chunk >= 1:
        for start in range(0, n, chunk):
            cand = items[:start] + items[start + chunk:]
            if len(cand) >= min_len and len(cand) < n:
                yield cand
        chunk //= 2


# ---------------------------------------------------------------- reporting

def _case_digest(case):
    return rng.digest(json.dumps(case, sort_keys=True))


def write_replay(check, clause, seed, i, case, viol, extra=None):
    d = os.path.join(VERIF, 'replays', check.pid)
    os.makedirs(d, exist_ok=True)
    safe = ''.join(ch if ch.isalnum() or ch in '-_.' else '_' for ch in clause)
    path = os.path.join(d, '%s-%s.json' % (safe, _case_digest(case)))
    rec = {'property': check.pid, 'clause': clause, 'verif_seed': seed, 'run_index': i,
           'pythonhashseed': os.environ.get('PYTHONHASHSEED'),
           'case': case, 'violation': viol,
           'replay': './check %s --replay %s' % (check.pid, path)}
    if extra:
        rec.update(extra)
    with open(path, 'w') as f:
        json.dump(rec, f, indent=1, sort_keys=True, default=repr)
    return path


def replay_in_fresh_interpreter(check, path):
    env = dict(os.environ)
    env['VERIF_REPLAY_CHILD'] = '1'       # same PYTHONHASHSEED as recorded in the file (inherited)
    try:
        p = subprocess.run([sys.executable, os.path.join(VERIF, 'check'), check.pid, '--replay', path],
                           env=env, stdout=subprocess.PIPE, stderr=subprocess.STDOUT, timeout=600)
    except subprocess.TimeoutExpired:
        return False, 'replay timed out'
    out = p.stdout.decode('utf-8', 'replace')
    if p.returncode == 1 and 'REPLAY-DIFFERENT' in out and ('clause=hang' in out or '(file says hang)' in out):
        # non-termination is judged against wall clocks; whether it surfaces as `hang`, `clock` or as a
        # second parse that differs from the first can vary, the fact that the case violates does not
        return True, out[-2000:]
    return p.returncode == 1 and 'REPLAY-REPRODUCED' in out, out[-2000:]


def do_replay(check, path):
    with open(path) as f:
        rec = json.load(f)
    want_hs = rec.get('pythonhashseed')
    if want_hs is not None and os.environ.get('PYTHONHASHSEED') != want_hs:
        env = dict(os.environ)
        env['PYTHONHASHSEED'] = want_hs
        os.execve(sys.executable, [sys.executable, os.path.join(VERIF, 'check'), check.pid, '--replay', path], env)
    case = rec['case']
    res = isolated(check, case)
    v = res.get('viol')
    want = rec.get('clause')
    if v and (want is None or v.get('clause') == want):
        print('REPLAY-REPRODUCED property=%s clause=%s' % (check.pid, v.get('clause')))
        print(json.dumps(v, indent=1, default=repr)[:4000])
        if not os.environ.get('VERIF_REPLAY_CHILD'):
            print('VIOLATION property=%s replay=%s' % (check.pid, path))
        return 1
    if v:
        print('REPLAY-DIFFERENT property=%s clause=%s (file says %s)' % (check.pid, v.get('clause'), want))
        print(json.dumps(v, indent=1, default=repr)[:4000])
        return 1
    print('REPLAY-PASS property=%s: the recorded case does not violate the property on this tree' % check.pid)
    return 0


def write_evidence(check, tier, seed, agg, wall, workers, nviol, extra):
    ev_dir = os.path.join(VERIF, 'evidence')
    os.makedirs(ev_dir, exist_ok=True)
    stats = dict(sorted(agg.stats.items()))
    faults = {k[len('fault.'):]: v for k, v in stats.items() if k.startswith('fault.')}
    probes = {k[len('probe.'):]: v for k, v in stats.items() if k.startswith('probe.')}
    classes = {k[len('class.'):]: v for k, v in stats.items() if k.startswith('class.')}
    cov = {
        'evaluations': agg.runs,
        'distinct_nontrivial': len(agg.distinct_nt),
        'rule': check.rule,
        'samples': agg.samples[:3] or [{'note': 'no non-trivial run sampled'}],
        'simulated_runs': agg.runs,
        'runs_per_hour': int(agg.runs / wall * 3600) if wall > 0 else 0,
        'seeds': 'run i uses run_seed = H(%r, VERIF_SEED=%d, i), i in [0, %d)' % (check.pid, seed, agg.runs),
        'simulated_time': {'unit': check.step_unit, 'total': agg.steps,
                           'per_run_mean': round(agg.steps / agg.runs, 2) if agg.runs else 0},
        'nontrivial_runs': agg.nontrivial,
        'distinct_total': len(agg.distinct),
        'distinct_counter_saturated': agg.saturated,
        'faults_fired': faults,
        'probes': probes,
        'run_classes': classes,
        'maxima': dict(agg.max),
        'other_counters': {k: v for k, v in stats.items()
                           if not k.startswith(('fault.', 'probe.', 'class.'))},
        'components': check.components,
        'workers': workers,
        'repo': os.path.abspath(REPO),
        'harness_errors': len(agg.errors),
    }
    cov.update(extra or {})
    ev = {
        'property_id': check.pid,
        'tier': tier,
        'seed': seed,
        'level': check.level,
        'coverage': cov,
        'assumptions': check.assumptions,
        'wall_s': round(wall, 2),
        'violations': nviol,
    }
    path = os.path.join(ev_dir, '%s.json' % check.pid)
    tmp = path + '.tmp'
    with open(tmp, 'w') as f:
        json.dump(ev, f, indent=1, sort_keys=True, default=repr)
    os.replace(tmp, path)
    return path


def main(check, argv):
    ap = argparse.ArgumentParser(prog='check ' + check.pid)
    ap.add_argument('--tier', default=os.environ.get('VERIF_TIER', 'quick'), choices=['quick', 'thorough'])
    ap.add_argument('--replay')
    ap.add_argument('--runs', type=int)
    ap.add_argument('--budget', type=float)
    ap.add_argument('--workers', type=int, default=int(os.environ.get('VERIF_WORKERS', '0')) or (os.cpu_count() or 4))
    ap.add_argument('--seed', type=int, default=int(os.environ.get('VERIF_SEED', '0') or 0))
    ap.add_argument('--digests', help='write {run index: event-log digest} here (determinism self-test)')
    ap.add_argument('--no-evidence', action='store_true')
    ap.add_argument('--only-class')
    ap.add_argument('--first', action='store_true', help='stop the sweep at the first violation (sensitivity self-test)')
    ap.add_argument('--shrink-budget', type=float)
    args = ap.parse_args(argv)

    t0 = time.monotonic()
    check.setup()
    if args.replay:
        return do_replay(check, args.replay)

    tier = args.tier
    tcfg = check.tiers[tier]
    budget = args.budget if args.budget is not None else float(os.environ.get('VERIF_BUDGET_S', 0) or tcfg['budget_s'])
    max_runs = args.runs if args.runs is not None else tcfg['max_runs']
    print('# check %s tier=%s VERIF_SEED=%d workers=%d budget=%ss max_runs=%d repo=%s'
          % (check.pid, tier, args.seed, args.workers, budget, max_runs, os.path.abspath(REPO)))
    sys.stdout.flush()
    agg = sweep(check, tier, args.seed, args.workers, budget, max_runs,
                keep_digests=bool(args.digests), only_class=args.only_class, first=args.first)
    PRISTINE[0] = True
    extra = {}
    if hasattr(check, 'post_sweep'):
        extra = check.post_sweep(agg) or {}

    # ---- violations: one representative per clause, lowest run index first
    by_clause = {}
    for (i, case, v) in sorted(agg.viols, key=lambda t: t[0]):
        by_clause.setdefault(v['clause'], []).append((i, case, v))
    unlisted = 0
    known_lines = []
    reported = []
    sb = args.shrink_budget if args.shrink_budget is not None else (20.0 if tier == 'quick' else 90.0)
    for clause in sorted(by_clause):
        # a clause may be produced by several distinct defects; minimise a few witnesses so a
        # listed finding cannot hide an unlisted one behind the same clause
        witnesses = by_clause[clause][:4]
        for (i, case, v) in witnesses:
            wclause = clause
            log = {}
            if check.isolation != 'fork' and not os.environ.get('VERIF_FORCE_FORK'):
                # the sweep executes an in-process check's runs one after another in one worker interpreter; a
                # violation may need what the worker's earlier runs left behind in hszinc's process-wide state
                try:
                    r0 = isolated(check, case)
                    if not (r0.get('viol') and r0['viol'].get('clause') == wclause):
                        pre = []
                        for j in range(i % args.workers, i, args.workers):
                            pc = check.generate(rng.derive(check.pid, args.seed, j), j, tier)
                            if args.only_class and pc.get('class') != args.only_class:
                                continue
                            pre.append(pc)
                        c2 = dict(case, prelude=pre)
                        r2 = isolated(check, c2)
                        if r2.get('viol') and r2['viol'].get('clause') == wclause:
                            case = c2
                            log['history'] = ('the case alone passes in an unused interpreter: the violation needs state that '
                                              'earlier runs of the same worker left behind in the process; the %d earlier cases '
                                              'are recorded as `prelude` and minimised with it' % len(pre))
                except HarnessError as e:
                    log['history'] = 'harness error: %s' % e
            if hasattr(check, 'localise'):
                # the same history observed more densely: the violation is then reported at the operation that causes
                # it, not where a sparse observation cadence happened to notice (what a known finding is matched on)
                try:
                    for c2 in check.localise(case):
                        r2 = isolated(check, c2)
                        if r2.get('viol'):
                            log['localised'] = 'first seen as clause=%s; re-run with dense observation' % wclause
                            case, v, wclause = c2, r2['viol'], r2['viol']['clause']
                            break
                except HarnessError as e:
                    log['localised'] = 'harness error: %s' % e
            if hasattr(check, 'prepare_shrink'):
                # e.g. turn a strategy+seed schedule into its explicit decision list
                try:
                    c2 = check.prepare_shrink(case, v)
                    r2 = isolated(check, c2)
                    if r2.get('viol') and r2['viol'].get('clause') == wclause:
                        case = c2
                    else:
                        log['prepare_shrink'] = 'explicit form did not reproduce; shrinking the seeded form'
                except HarnessError as e:
                    log['prepare_shrink'] = 'harness error: %s' % e
            small = shrink(check, case, wclause, budget_s=sb, log=log)
            try:
                res = isolated(check, small)
                v2 = res.get('viol') or v
            except HarnessError:
                small, v2 = case, v
            path = write_replay(check, wclause, args.seed, i, small, v2,
                                {'original_ops': len(case.get('ops', [])), 'shrink': log})
            ok, out = replay_in_fresh_interpreter(check, path)
            if not ok:
                agg.errors.append('replay of %s did not reproduce in a fresh interpreter:\n%s' % (path, out))
                continue
            kf = findings.match(check.pid, wclause, small, v2)
            if kf is not None:
                line = 'KNOWN-FINDING: property=%s %s' % (check.pid, kf['text'])
                if line not in known_lines:
                    known_lines.append(line)
                continue
            key = (wclause, _case_digest(small))
            if key in reported:
                continue
            reported.append(key)
            unlisted += 1
            print('VIOLATION property=%s replay=%s' % (check.pid, path))
            print('  clause=%s run=%d detail=%s' % (wclause, i, json.dumps(v2.get('detail'), default=repr)[:600]))
    for line in known_lines:
        print(line)

    wall = time.monotonic() - t0
    if args.digests:
        with open(args.digests, 'w') as f:
            json.dump({str(k): v for k, v in sorted(agg.digests.items())}, f)
    if not args.no_evidence:
        write_evidence(check, tier, args.seed, agg, wall, args.workers, unlisted, extra)
    print('# %s: %d runs (%d non-trivial, %d distinct non-trivial), %d %s, %.1fs, %d runs/h'
          % (check.pid, agg.runs, agg.nontrivial, len(agg.distinct_nt), agg.steps, check.step_unit,
             wall, int(agg.runs / wall * 3600) if wall else 0))
    if agg.viols:
        print('# %d violating runs in the sweep (at most 4 witnesses per clause are minimised and reported)' % len(agg.viols))
    if agg.errors:
        for e in agg.errors[:5]:
            print('HARNESS-ERROR %s' % e)
        return 2
    if agg.runs == 0:
        print('HARNESS-ERROR no run executed')
        return 2
    if unlisted:
        return 1
    print('# %s: property held on everything explored' % check.pid)
    return 0
