"""Deterministic thread scheduler (engine `sched`).

Real Python threads, but only the baton holder runs; every other thread is parked on its
own gate.  Pre-emption points are `line` (optionally `opcode`) trace events in frames of
the traced files, plus explicit points inside the seams (SimStdout.write, SimLock).  At
every point the strategy decides who continues; the list of actual switches *is* the
schedule and is enough to replay the run exactly:

    [from_tid, from_thread_local_step, to_tid, kind]     kind: 'pre' | 'exit' | 'block' | 'start'

Thread-local step numbers (not global ones) key the decisions so that dropping one switch
while minimising leaves the others meaningful.
"""
import _thread
import sys
import threading

CURRENT = None          # the Sim that is running in this process, if any
_REAL_LOCK = _thread.allocate_lock


class Deadlock(Exception):
    pass


# ---------------------------------------------------------------- strategies

class RandomStrategy(object):
    name = 'random'

    def __init__(self, rnd, p):
        self.rnd = rnd
        self.p = p

    def choose(self, sim, t, tag, runnable_others):
        if runnable_others and self.rnd.random() < self.p:
            return self.rnd.choice(runnable_others)
        return None

    def forced(self, sim, t, candidates):
        return self.rnd.choice(candidates)

    def boost(self, sim, t, runnable_others):
        # a "slow I/O" seam: always hand over
        if runnable_others:
            return self.rnd.choice(runnable_others)
        return None


class PCTStrategy(object):
    """Burckhardt et al., probabilistic concurrency testing: random distinct priorities,
    d-1 priority change points uniformly over the estimated run length."""
    name = 'pct'

    def __init__(self, rnd, nthreads, d, est_len):
        self.rnd = rnd
        pr = list(range(d, d + nthreads))
        rnd.shuffle(pr)
        self.prio = dict(enumerate(pr))
        self.change = {}
        for k in range(1, d):
            self.change[rnd.randrange(1, max(2, est_len))] = d - k
        self.d = d

    def _best(self, cands):
        return max(cands, key=lambda x: (self.prio.get(x.tid, 0), -x.tid))

    def choose(self, sim, t, tag, runnable_others):
        low = self.change.get(sim.steps)
        if low is not None:
            self.prio[t.tid] = low
        if not runnable_others:
            return None
        best = self._best(runnable_others + [t])
        return best if best is not t else None

    def forced(self, sim, t, candidates):
        return self._best(candidates)

    def boost(self, sim, t, runnable_others):
        return None


class ParkStrategy(object):
    """Delay injection at one program point: thread `victim` runs first and alone until its `at`-th pre-emption
    point, is parked there, and only continues when every other thread has finished or is blocked.  One long delay
    at a chosen point of one thread's first operation is what a check-then-use window against another thread's
    complete operation needs; random switching and PCT reach such a point rarely when the other operation is
    thousands of steps long."""
    name = 'park'

    def __init__(self, rnd, nthreads, victim, at):
        pr = list(range(1, nthreads + 1))
        rnd.shuffle(pr)
        self.prio = dict(enumerate(pr))
        self.victim = victim
        self.at = at
        self.parked = False

    def _key(self, x):
        if x.tid == self.victim:
            return (-1 if self.parked else 10 ** 6, -x.tid)
        return (self.prio.get(x.tid, 0), -x.tid)

    def choose(self, sim, t, tag, runnable_others):
        if t.tid == self.victim and not self.parked and t.local_steps >= self.at:
            self.parked = True
        if not runnable_others:
            return None
        best = max(runnable_others + [t], key=self._key)
        return best if best is not t else None

    def forced(self, sim, t, candidates):
        return max(candidates, key=self._key)

    def boost(self, sim, t, runnable_others):
        return None


class ReplayStrategy(object):
    name = 'replay'

    def __init__(self, decisions):
        self.table = {}
        for d in decisions:
            self.table[(d[0], d[1])] = d[2]

    def choose(self, sim, t, tag, runnable_others):
        to = self.table.get((t.tid, t.local_steps))
        if to is None:
            return None
        for x in runnable_others:
            if x.tid == to:
                return x
        return None

    def forced(self, sim, t, candidates):
        to = self.table.get((t.tid if t is not None else -1, t.local_steps if t is not None else 0))
        for x in candidates:
            if x.tid == to:
                return x
        return min(candidates, key=lambda x: x.tid)

    def boost(self, sim, t, runnable_others):
        return None


# ---------------------------------------------------------------- threads

class SimThread(object):
    def __init__(self, sim, tid, fn):
        self.sim = sim
        self.tid = tid
        self.fn = fn
        self.gate = _REAL_LOCK()
        self.gate.acquire()
        self.state = 'runnable'
        self.blocked_on = None
        self.local_steps = 0
        self.exc = None
        self.in_compile = 0
        self.ident = None
        self.thread = threading.Thread(target=self._body, name='sim-%d' % tid, daemon=True)

    def _body(self):
        self.ident = _thread.get_ident()
        self.gate.acquire()
        sim = self.sim
        if sim.aborted:
            return
        sys.settrace(sim._trace)
        try:
            self.fn()
        except BaseException as e:   # recorded; the workload decides what it means
            self.exc = e
        finally:
            sys.settrace(None)
            sim._on_exit(self)


class Sim(object):
    def __init__(self, strategy, traced_prefixes, opcode=False, step_cap=200000, wall_s=30.0):
        self.strategy = strategy
        self.traced_prefixes = tuple(traced_prefixes)
        self.opcode = opcode
        self.step_cap = step_cap
        self.wall_s = wall_s
        self.threads = []
        self.current = None
        self.steps = 0
        self.capped = False
        self.aborted = False
        self.deadlock = None
        self.decisions = []          # actual switches
        self.switch_log = []         # (from, where, to) for the distinct-schedule measure
        self.probes = {}
        self.done_gate = _REAL_LOCK()
        self.done_gate.acquire()
        self._file_ok = {}
        self.running = False
        self.hooks = {}              # step -> callable, injected events (e.g. gc.collect)
        self.compile_code_name = '_filter_function'

    # -- setup
    def spawn(self, fn):
        t = SimThread(self, len(self.threads), fn)
        self.threads.append(t)
        return t

    def cur(self):
        """The SimThread executing right now, or None outside the simulation."""
        if not self.running:
            return None
        t = self.current
        if t is not None and t.ident == _thread.get_ident():
            return t
        return None

    def probe(self, name, n=1):
        self.probes[name] = self.probes.get(name, 0) + n

    # -- the trace functions (the pre-emption points)
    def _trace(self, frame, event, arg):
        fn = frame.f_code.co_filename
        ok = self._file_ok.get(fn)
        if ok is None:
            ok = fn.startswith(self.traced_prefixes)
            self._file_ok[fn] = ok
        if not ok:
            return None
        if frame.f_code.co_name == self.compile_code_name:
            t = self.current
            if t is not None:
                t.in_compile += 1
        if self.opcode:
            frame.f_trace_opcodes = True
        return self._local

    def _local(self, frame, event, arg):
        if event == 'line' or event == 'opcode':
            self.point(frame)
        elif event == 'return' and frame.f_code.co_name == self.compile_code_name:
            t = self.current
            if t is not None and t.in_compile:
                t.in_compile -= 1
        return self._local

    # -- scheduling
    def _runnable_others(self, t):
        return [x for x in self.threads if x is not t and x.state == 'runnable']

    def point(self, where, boost=False):
        t = self.current
        if t is None or t.ident != _thread.get_ident():
            return
        t.local_steps += 1
        self.steps += 1
        h = self.hooks.get(self.steps)
        if h is not None:
            h()
        if self.steps > self.step_cap:
            self.capped = True
            return
        others = self._runnable_others(t)
        if boost:
            nxt = self.strategy.boost(self, t, others) or self.strategy.choose(self, t, where, others)
        else:
            nxt = self.strategy.choose(self, t, where, others)
        if nxt is not None and nxt is not t:
            self._switch(t, nxt, 'pre', where)

    def _where(self, where):
        if where is None or isinstance(where, (str, tuple)):
            return where
        try:
            fn = where.f_code.co_filename
            return (fn[fn.rfind('/') + 1:], where.f_lineno)
        except AttributeError:
            return str(where)

    def _switch(self, t, nxt, kind, where):
        self.decisions.append([t.tid, t.local_steps, nxt.tid, kind])
        self.switch_log.append((t.tid, self._where(where), nxt.tid))
        if t.in_compile and nxt.in_compile:
            self.probe('two_threads_inside_compile')
        self.current = nxt
        nxt.gate.release()
        t.gate.acquire()
        # resumed: whoever woke us has set self.current = t

    def block(self, t, on):
        """t cannot continue until `on` is released: pick somebody else or report deadlock."""
        t.local_steps += 1
        t.state = 'blocked'
        t.blocked_on = on
        cands = [x for x in self.threads if x.state == 'runnable']
        self.probe('lock_waits')
        if not cands:
            self._deadlock(t)
            t.gate.acquire()      # never returns; the child process is discarded
        nxt = self.strategy.forced(self, t, cands)
        self._switch(t, nxt, 'block', 'lock')

    def wake(self, on):
        for x in self.threads:
            if x.state == 'blocked' and x.blocked_on is on:
                x.state = 'runnable'
                x.blocked_on = None

    def _deadlock(self, t):
        self.deadlock = {'blocked': [x.tid for x in self.threads if x.state == 'blocked']}
        self.aborted = True
        self.running = False
        self.done_gate.release()

    def _on_exit(self, t):
        t.local_steps += 1
        t.state = 'done'
        cands = [x for x in self.threads if x.state == 'runnable']
        if cands:
            nxt = self.strategy.forced(self, t, cands)
            self.decisions.append([t.tid, t.local_steps, nxt.tid, 'exit'])
            self.switch_log.append((t.tid, 'exit', nxt.tid))
            self.current = nxt
            nxt.gate.release()
            return
        if any(x.state == 'blocked' for x in self.threads):
            self._deadlock(t)
            return
        self.running = False
        self.current = None
        self.done_gate.release()

    def run(self):
        global CURRENT
        CURRENT = self
        for t in self.threads:
            t.thread.start()
        self.running = True
        first = self.strategy.forced(self, None, list(self.threads))
        self.decisions.append([-1, 0, first.tid, 'start'])
        self.current = first
        first.gate.release()
        ok = self.done_gate.acquire(timeout=self.wall_s)
        self.running = False
        if not ok:
            self.aborted = True
            raise RuntimeError('simulation exceeded its wall watchdog (a thread is stuck in something the '
                               'simulator cannot interpose on)')
        if self.deadlock is None:
            for t in self.threads:
                t.thread.join(timeout=5.0)
        CURRENT = None
        return self


# ---------------------------------------------------------------- simulated locks

class SimLock(object):
    """Stands in for threading.Lock / RLock inside the code under test and pyparsing.
    Outside a simulation it behaves like an uncontended lock."""
    reentrant = False

    def __init__(self, *a, **k):
        self.owner = None
        self.count = 0

    def acquire(self, blocking=True, timeout=-1):
        sim = CURRENT
        t = sim.cur() if sim is not None else None
        if t is None:
            if self.owner is None or (self.reentrant and self.owner == 'ext'):
                self.owner = 'ext'
                self.count += 1
                return True
            if not blocking:
                return False
            raise RuntimeError('SimLock contended outside a simulation')
        sim.point('lock.acquire')
        while self.owner is not None and not (self.reentrant and self.owner is t):
            if not blocking:
                return False
            sim.block(t, self)
        self.owner = t
        self.count += 1
        return True

    def release(self):
        if self.owner is None:
            raise RuntimeError('release unlocked lock')
        self.count -= 1
        if self.count <= 0:
            self.count = 0
            self.owner = None
            sim = CURRENT
            if sim is not None:
                sim.wake(self)
                if sim.cur() is not None:
                    sim.point('lock.release')

    def locked(self):
        return self.owner is not None

    __enter__ = acquire

    def __exit__(self, *a):
        self.release()

    def _is_owned(self):
        return self.owner is not None


class SimRLock(SimLock):
    reentrant = True


class lock_factory_during_import(object):
    """While the code under test is imported, threading.Lock/RLock called *from its modules*
    yield simulated locks, so that a lock added to the repository (for instance by a repair
    of the C13 race) is scheduled by the simulator instead of dead-locking the baton."""

    def __init__(self, module_prefix='hszinc'):
        self.prefix = module_prefix
        self.made = 0

    def _factory(self, real, simcls):
        outer = self

        def make(*a, **k):
            f = sys._getframe(1)
            mod = f.f_globals.get('__name__', '')
            if mod == outer.prefix or mod.startswith(outer.prefix + '.'):
                outer.made += 1
                return simcls()
            return real(*a, **k)
        return make

    def __enter__(self):
        self._lock, self._rlock = threading.Lock, threading.RLock
        threading.Lock = self._factory(self._lock, SimLock)
        threading.RLock = self._factory(self._rlock, SimRLock)
        return self

    def __exit__(self, *a):
        threading.Lock, threading.RLock = self._lock, self._rlock


# ---------------------------------------------------------------- simulated stdout

class SimStdout(object):
    """sys.stdout seam: records every write, is a yield point (models the GIL release of a
    real write), and injects faults on the n-th write."""

    def __init__(self, fault=None, slow=False):
        self.writes = []         # (tid, text)
        self.fault = fault       # {'kind': ..., 'at': n}
        self.slow = slow
        self.n = 0
        self.fired = []
        self.cur_op = {}         # tid -> index of the operation that thread is in (set by the workload)
        self.fired_ops = set()   # (tid, op index) during which a fault was delivered
        self.encoding = 'utf-8'

    def write(self, s):
        sim = CURRENT
        t = sim.cur() if sim is not None else None
        self.n += 1
        self.writes.append((t.tid if t is not None else -1, s))
        f = self.fault
        if f is not None and self.n == f['at'] and f['kind'] != 'ascii':
            self.fired.append(f['kind'])
            self.fired_ops.add((t.tid if t is not None else -1, self.cur_op.get(t.tid if t is not None else -1)))
            k = f['kind']
            if k == 'epipe':
                raise BrokenPipeError(32, 'Broken pipe (injected)')
            if k == 'enospc':
                raise OSError(28, 'No space left on device (injected)')
            if k == 'closed':
                raise ValueError('I/O operation on closed file (injected)')
        if f is not None and f['kind'] == 'ascii' and self.n >= f['at']:
            # from the n-th write on the stream behaves like an ASCII-only terminal (LANG=C)
            try:
                s.encode('ascii')
            except UnicodeEncodeError:
                self.fired.append('ascii')
                self.fired_ops.add((t.tid if t is not None else -1, self.cur_op.get(t.tid if t is not None else -1)))
                raise
        if t is not None:
            sim.point('io.write', boost=self.slow)
        return len(s)

    def flush(self):
        pass
