"""Known findings: genuine defects recorded rather than repaired.

/verif/known_findings.json is committed and never written at run time.  Each entry is a
predicate over the *minimised* violation record: property, clause, and `requires` -- a list
of conditions that must all hold:
    {"op_kind": K}        some op of the minimised case has kind K
    {"case_field": F, "equals": V}
    {"detail_contains": S}   substring of the JSON rendering of the violation detail
A violation that satisfies no entry is reported as VIOLATION.  `fixed` entries are
documentation only and suppress nothing.
"""
import json
import os

PATH = os.environ.get('VERIF_KNOWN_FINDINGS') or \
    os.path.join(os.path.dirname(os.path.dirname(os.path.abspath(__file__))), 'known_findings.json')
# (VERIF_KNOWN_FINDINGS is for the self-test of this mechanism only; checks registered in MANIFEST.json use the committed file)


def load():
    try:
        with open(PATH) as f:
            return json.load(f)
    except FileNotFoundError:
        return {'findings': [], 'fixed': []}


def _holds(cond, case, viol):
    if 'op_kind' in cond:
        return any(isinstance(o, dict) and o.get('op') == cond['op_kind'] for o in _all_ops(case))
    if 'case_field' in cond:
        return case.get(cond['case_field']) == cond.get('equals')
    if 'detail_contains' in cond:
        return cond['detail_contains'] in json.dumps(viol.get('detail'), default=repr, sort_keys=True)
    return False


def _all_ops(case):
    ops = list(case.get('ops', []))
    for t in case.get('threads', []):
        ops.extend(t.get('ops', []) if isinstance(t, dict) else [])
    return ops


def match(pid, clause, case, viol):
    for e in load().get('findings', []):
        if e.get('property') != pid or e.get('clause') != clause:
            continue
        if all(_holds(c, case, viol) for c in e.get('requires', [])):
            return e
    return None
