def fill(add, pending):
    add('C16', 'hist', 'exploration',
        'Seeded search over operation-and-refusal histories of SortableDict / MetadataObject / grid.metadata / grid.column[c], '
        'each stepped in lock-step with a reference ordered-map model and compared in full after every operation; '
        'samples histories (millions per hour), does not enumerate them.',
        'Trusted: the reference model models/orderedmap.py as the reading of the docstring; string keys; two readings accepted for numeric-index relocation.',
        'deterministic simulation: seeded history search vs reference model with injected validator refusals',
        'DESIGN.md section 3 C16')
    add('C14', 'hist', 'exploration',
        'Seeded search over histories of every Grid row operation (append/insert/extend/+=/setitem/del index+slice/pop/remove/'
        'reverse/clear, refused non-dict rows, out-of-range indexes) on a pool of root, sliced and filtered grids, in lock-step '
        'with plain lists of the same row objects; every live grid is observed in full (len, identity order, every index incl. '
        'negative, seeded slices with version/metadata/columns, in/index/count, exception parity) after every operation.',
        'Trusted: Python list as the reference; sampling, not enumeration, of histories.',
        'deterministic simulation: seeded history search vs list model with injected refusals',
        'DESIGN.md section 3 C14')
    add('C15', 'hist', 'exploration',
        'Same machine; every id value ever used (raw and str form, str/int/Ref kinds, duplicates, in-place edits + reindex) is '
        'looked up through grid[key] and grid.get on every live grid and compared with a linear scan of the model list; clauses '
        'stale / wrong / missing / crash reported separately; unique-str, duplicates and mixed-kinds run classes.',
        'Trusted: linear-scan model; any current row with the id is an acceptable answer when ids are duplicated.',
        'deterministic simulation: seeded history search vs scan-based lookup model',
        'DESIGN.md section 3 C15')
    add('C13', 'sched', 'exploration',
        'Seeded search over thread schedules: 2-4 real caller threads run under a baton-passing scheduler that decides every '
        'context switch at source-line (sometimes opcode) granularity inside hszinc (and, in a tenth of runs, pyparsing); '
        'filters are attributable by construction so a result computed with another filter\'s code is recognised; cache capacity, '
        'stdout slowness/faults, gc timing are per-run knobs; plus single-thread use histories around the cache capacity '
        '(as-shipped 500 and small). Samples schedules (random + PCT), does not enumerate them.',
        'Trusted: settrace line events as pre-emption points (finer than real GIL switches); C code atomic; by-construction '
        'expected rows cross-checked by a solo evaluation before the threads start.',
        'deterministic simulation: baton-passing thread scheduler (random/PCT schedules), simulated locks and stdout, seeded cache histories',
        'DESIGN.md section 3 C13')
    add('C10', 'hist+wire', 'exploration',
        'Seeded search over store histories (every entry path x value kind x declared version incl. non-official strings, refused '
        'stores as injected faults, in-place row edits to reach the writers) checked after every step against a decision model, '
        'with both writers asked to dump and both readers fed the output; plus version-skewed peer documents (ZINC/JSON, one '
        '3.0-only construct at each position) and the scalar API; Grid / zinc writer / json writer / zinc reader / json reader '
        'decisions compared for the same version string.',
        'Trusted: the decision model accepts(v) <=> v > 2.0 (non-official versions handled as the closest newer official one, as the '
        'repository suite pins); value kinds limited to those both dumpers support.',
        'deterministic simulation: seeded history search + version-skew fault on a writer->channel->reader pipeline vs decision model',
        'DESIGN.md section 3 C10')
    add('C09', 'wire', 'fault_enumeration',
        'Writer -> faulty channel -> reader pipeline: per base document (stub peer with span annotations, hszinc.dump output, scalar '
        'tokens; 2.0 and 3.0; single and multi-grid; str and bytes API) EVERY truncation offset of small documents is delivered, plus '
        'seeded lost/duplicated/reordered/flipped/inserted/spliced/CRLF/charset/BOM/NUL/version-skew deliveries and placed faults '
        'whose post-condition is guaranteed-broken (must be rejected). Each delivery is judged: outcome class, exception type, '
        'line/col inside the text, termination on a deterministic clock, purity, behaviour under a faulted stdout, and a later grid of a '
        'text being held to the same header rules as the same grid delivered alone.',
        'Trusted: stub peer annotations (which spans are strings/brackets/names); the clock (count of pyparsing match attempts, budget '
        '200 x the fault-free parse); a delivered text that still parses is not compared with the base grid.',
        'deterministic simulation: writer->channel->reader pipeline with enumerated truncations and seeded channel/stdout faults',
        'DESIGN.md section 3 C09')
