def fill(add, pending):
    add('C16', 'hist', 'exploration',
        'Seeded search over operation-and-refusal histories of SortableDict / MetadataObject / grid.metadata / grid.column[c], '
        'each stepped in lock-step with a reference ordered-map model and compared in full after every operation; '
        'samples histories (millions per hour), does not enumerate them.',
        'Trusted: the reference model models/orderedmap.py as the reading of the docstring; string keys; two readings accepted for numeric-index relocation.',
        'deterministic simulation: seeded history search vs reference model with injected validator refusals',
        'DESIGN.md section 3 C16')
    for pid in ('C09', 'C10', 'C13', 'C14', 'C15'):
        pending[pid] = 'designed (DESIGN.md section 3) but its check is not built yet in this commit; not claimed until it is'
