"""Self-test of the known-findings mechanism (no finding is open on the current tree, so the
path would otherwise never run).  With a scratch findings file that lists "relocation by
pos_key lands one too far" for C16:
  * on a scratch copy with that very defect re-introduced the C16 check must print
    KNOWN-FINDING, no VIOLATION, and exit 0;
  * on a scratch copy with a *different* C16 defect (same clause `order`) it must still print
    VIOLATION and exit 1 -- a listed finding does not hide another violation of the property.
"""
import json
import os
import shutil
import subprocess
import tempfile

VERIF = os.path.dirname(os.path.dirname(os.path.abspath(__file__)))
REPO = os.environ.get('VERIF_REPO', '/repo')


def run(patch, findings):
    tmp = tempfile.mkdtemp(prefix='verif-kf-')
    try:
        copy = os.path.join(tmp, 'repo')
        shutil.copytree(REPO, copy, ignore=shutil.ignore_patterns('.git', '__pycache__', '*.pyc'))
        subprocess.check_call(['patch', '-p1', '-s', '-i', os.path.join(VERIF, 'selftest', 'mutants', patch)], cwd=copy)
        env = dict(os.environ, VERIF_REPO=copy, VERIF_KNOWN_FINDINGS=findings)
        p = subprocess.run([os.path.join(VERIF, 'check'), 'C16', '--budget', '12', '--no-evidence', '--shrink-budget', '6'],
                           env=env, stdout=subprocess.PIPE, stderr=subprocess.DEVNULL)
        return p.returncode, p.stdout.decode('utf-8', 'replace')
    finally:
        shutil.rmtree(tmp, ignore_errors=True)


def main(argv):
    with tempfile.TemporaryDirectory(prefix='verif-kf-') as d:
        f = os.path.join(d, 'kf.json')
        json.dump({'findings': [{'property': 'C16', 'clause': 'order',
                                 'requires': [{'op_kind': 'add'}, {'detail_contains': '"pos_key"'}],
                                 'text': 'add_item(existing key, pos_key=later key) lands one place too far'}],
                   'fixed': []}, open(f, 'w'))
        rc, out = run('C16_unfix_pos_key_relocation.patch', f)
        ok1 = rc == 0 and 'KNOWN-FINDING: property=C16' in out and 'VIOLATION' not in out
        print('findings: listed defect      -> exit %d, KNOWN-FINDING %s, VIOLATION %s : %s'
              % (rc, 'KNOWN-FINDING' in out, 'VIOLATION' in out, 'ok' if ok1 else 'WRONG'))
        rc, out = run('C16_after_ignored_for_new_keys.patch', f)
        ok2 = rc == 1 and 'VIOLATION property=C16' in out
        print('findings: different defect   -> exit %d, VIOLATION %s : %s' % (rc, 'VIOLATION' in out, 'ok' if ok2 else 'WRONG'))
        if not ok2:
            print(out[-1500:])
    if ok1 and ok2:
        print('findings ok')
        return 0
    print('FINDINGS-SELFTEST-FAILED')
    return 1
