"""Setup-time smoke test: the tree under test imports, the PRNG derivation is stable."""
import sys


def main(argv):
    from sim import rng, runner
    hs = runner.use_repo()
    assert rng.derive('C16', 0, 1) == rng.derive('C16', 0, 1)
    a = rng.stream(5, 'ops').random()
    b = rng.stream(5, 'ops').random()
    assert a == b and a != rng.stream(5, 'sched').random()
    print('smoke ok: hszinc %s from %s, python %s' % (hs.__version__, hs.__file__, sys.version.split()[0]))
    return 0
