"""Determinism self-test: the same VERIF_SEED must give the same event log for every run
index, whatever the worker count, the process hash seed, or (for the in-process history
machines) the isolation mode.  Each configuration is a fresh interpreter.

    ./check selftest-determinism [--quick] [ids...]
"""
import json
import os
import subprocess
import sys
import tempfile

VERIF = os.path.dirname(os.path.dirname(os.path.abspath(__file__)))
RUNS = {'C16': 3000, 'C14': 2000, 'C15': 2000, 'C10': 800, 'C13': 600, 'C09': 120}
CONFIGS = [
    {'workers': '1', 'hashseed': '0', 'env': {}},
    {'workers': '16', 'hashseed': '12345', 'env': {}},
    {'workers': '5', 'hashseed': '1', 'env': {'VERIF_FORCE_FORK': '1', 'VERIF_ROUNDTRIP': '1'}},
]


def one(pid, runs, cfg, seed, tmp):
    out = os.path.join(tmp, '%s-%s-%s.json' % (pid, cfg['workers'], cfg['hashseed']))
    env = dict(os.environ)
    env['PYTHONHASHSEED'] = cfg['hashseed']
    env['VERIF_SEED'] = str(seed)
    env.update(cfg['env'])
    p = subprocess.run([os.path.join(VERIF, 'check'), pid, '--runs', str(runs), '--budget', '3000', '--workers', cfg['workers'],
                        '--digests', out, '--no-evidence'], env=env, stdout=subprocess.PIPE, stderr=subprocess.DEVNULL)
    if p.returncode not in (0,):
        sys.stdout.write(p.stdout.decode('utf-8', 'replace')[-1500:])
        raise SystemExit('determinism: %s exited %d under %r' % (pid, p.returncode, cfg))
    with open(out) as f:
        return json.load(f)


def main(argv):
    quick = '--quick' in argv
    ids = [a for a in argv if not a.startswith('--')] or sorted(RUNS)
    bad = 0
    with tempfile.TemporaryDirectory(prefix='verif-det-') as tmp:
        for pid in ids:
            runs = RUNS[pid] // (4 if quick else 1)
            ref = None
            for seed in (0, 7):
                logs = [one(pid, runs, cfg, seed, tmp) for cfg in CONFIGS]
                ref = logs[0]
                if len(ref) != runs:
                    print('determinism: %s produced %d digests, expected %d' % (pid, len(ref), runs))
                    bad += 1
                for cfg, log in zip(CONFIGS[1:], logs[1:]):
                    diff = [k for k in ref if log.get(k) != ref[k]] + [k for k in log if k not in ref]
                    if diff:
                        bad += 1
                        print('determinism: %s VERIF_SEED=%d: %d of %d runs differ between %r and %r (first: run %s)'
                              % (pid, seed, len(diff), len(ref), CONFIGS[0], cfg, diff[0]))
                print('determinism: %s VERIF_SEED=%d: %d runs x %d configurations compared' % (pid, seed, len(ref), len(CONFIGS)))
                sys.stdout.flush()
    if bad:
        print('DETERMINISM-FAILED')
        return 1
    print('determinism ok')
    return 0
