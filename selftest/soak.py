"""False-alarm soak: every check, quick tier, on the tree under test as it is, for a range of VERIF_SEED values.
Every run must exit 0 without a VIOLATION or HARNESS-ERROR line (no evidence is written).

    ./check selftest-soak [first_seed last_seed]        default 21 26
"""
import os
import subprocess
import sys

VERIF = os.path.dirname(os.path.dirname(os.path.abspath(__file__)))
CHECKS = ['C09', 'C10', 'C13', 'C14', 'C15', 'C16']


def main(argv):
    nums = [int(a) for a in argv if a.isdigit()]
    first, last = (nums + [21, 26])[:2] if len(nums) >= 2 else (21, 26)
    bad = 0
    for seed in range(first, last + 1):
        for c in CHECKS:
            env = dict(os.environ, VERIF_SEED=str(seed))
            env.pop('PYTHONHASHSEED', None)
            p = subprocess.run([os.path.join(VERIF, 'check'), c, '--tier', 'quick', '--no-evidence'], env=env,
                               stdout=subprocess.PIPE, stderr=subprocess.DEVNULL)
            out = p.stdout.decode('utf-8', 'replace')
            ok = p.returncode == 0 and 'VIOLATION' not in out and 'HARNESS-ERROR' not in out
            print('soak: seed=%d %s exit=%d %s' % (seed, c, p.returncode, 'ok' if ok else 'ALARM'))
            sys.stdout.flush()
            if not ok:
                bad += 1
                print(out[-1500:])
    if bad:
        print('SOAK-FAILED (%d)' % bad)
        return 1
    print('soak ok (%d seeds x %d checks)' % (last - first + 1, len(CHECKS)))
    return 0
