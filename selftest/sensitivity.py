"""Sensitivity self-test: every patch under selftest/mutants and seeded/*/patch.diff is
applied to a scratch copy of the tree under test (never to /repo); the owning check must
report a violation on the copy within its quick budget.  Patches whose name starts with OK_
are behaviour-preserving rewrites: the owning check must stay silent.

    ./check selftest-sensitivity [--tier quick] [name-substring ...]
"""
import glob
import json
import os
import shutil
import subprocess
import sys
import tempfile

VERIF = os.path.dirname(os.path.dirname(os.path.abspath(__file__)))
REPO = os.environ.get('VERIF_REPO', '/repo')


BUDGETS = {}


def patches():
    out = []
    for p in sorted(glob.glob(os.path.join(VERIF, 'selftest', 'mutants', '*.patch'))):
        name = os.path.basename(p)[:-6]
        expect_silent = name.startswith('OK_')
        owner = (name[3:] if expect_silent else name).split('_')[0]
        out.append((name, p, [owner], expect_silent))
    for d in sorted(glob.glob(os.path.join(VERIF, 'seeded', '*'))):
        meta = os.path.join(d, 'meta.json')
        pf = os.path.join(d, 'patch.diff')
        if os.path.exists(meta) and os.path.exists(pf):
            m = json.load(open(meta))
            # meta "expect": "silent" marks a behaviour-preserving rewrite: the owning check must not raise an alarm
            out.append(('seeded/' + os.path.basename(d), pf, m.get('caught_by') or [m['property']],
                        m.get('expect') == 'silent'))
            if m.get('budget_s'):
                # a change whose violating runs are rare (a few per quick sweep): the self-test gives the sweep more time
                # so that it does not hinge on one lucky seed or an idle machine; meta.json says how rare
                BUDGETS['seeded/' + os.path.basename(d)] = str(m['budget_s'])
    return out


def main(argv):
    tier = 'quick'
    if '--tier' in argv:
        tier = argv[argv.index('--tier') + 1]
    seed = None
    if '--seed' in argv:
        seed = argv[argv.index('--seed') + 1]       # detection should not hinge on one lucky VERIF_SEED
    subs = [a for a in argv if not a.startswith('--') and a != tier and a != seed]
    failures = 0
    rows = []
    for name, pf, owners, expect_silent in patches():
        if subs and not any(s in name for s in subs):
            continue
        tmp = tempfile.mkdtemp(prefix='verif-mut-')
        try:
            copy = os.path.join(tmp, 'repo')
            shutil.copytree(REPO, copy, ignore=shutil.ignore_patterns('.git', '__pycache__', '*.pyc', '.pytest_cache'))
            r = subprocess.run(['patch', '-p1', '-s', '-i', pf], cwd=copy, stdout=subprocess.PIPE, stderr=subprocess.STDOUT)
            if r.returncode != 0:
                print('sensitivity: %s does not apply: %s' % (name, r.stdout.decode()[-300:]))
                failures += 1
                continue
            for owner in owners:
                env = dict(os.environ)
                env['VERIF_REPO'] = copy
                if seed is not None:
                    env['VERIF_SEED'] = seed
                    env.pop('PYTHONHASHSEED', None)
                cmd = [os.path.join(VERIF, 'check'), owner, '--tier', tier, '--no-evidence', '--shrink-budget', '5']
                if not expect_silent:
                    cmd.append('--first')      # same budget, but stop as soon as one witness is found
                    if name in BUDGETS:
                        cmd += ['--budget', BUDGETS[name]]
                p = subprocess.run(cmd,
                                   env=env, stdout=subprocess.PIPE, stderr=subprocess.DEVNULL)
                out = p.stdout.decode('utf-8', 'replace')
                viol = [l for l in out.splitlines() if l.startswith('VIOLATION')]
                if expect_silent:
                    ok = p.returncode == 0 and not viol
                else:
                    ok = p.returncode == 1 and bool(viol)
                clause = ''
                for l in out.splitlines():
                    if l.strip().startswith('clause='):
                        clause = l.strip().split(' ')[0]
                        break
                rows.append((name, owner, 'silent' if expect_silent else 'detect', 'ok' if ok else 'MISSED', clause))
                print('sensitivity: %-45s %s expect=%-6s exit=%d %s %s' % (name, owner, 'silent' if expect_silent else 'detect',
                                                                            p.returncode, 'ok' if ok else 'MISSED', clause))
                sys.stdout.flush()
                if not ok:
                    failures += 1
                    print(out[-1200:])
        finally:
            shutil.rmtree(tmp, ignore_errors=True)
    if failures:
        print('SENSITIVITY-FAILED (%d)' % failures)
        return 1
    print('sensitivity ok (%d patch x check pairs)' % len(rows))
    return 0
