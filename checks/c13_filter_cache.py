"""C13 -- a filter's result is independent of other filters, earlier or concurrent.

Engine `sched`: 2-4 caller threads share one interpreter's hszinc.grid_filter (global name
counter, module namespace, LRU cache -- all real code) under the baton scheduler of
sim/sched.py; filters are attributable (every pool filter selects a different, non-empty
row set known by construction), so "A evaluated with B's code" is recognisable.  A second
run class drives long single-thread histories around the cache capacity.
"""
import copy
import gc
import sys

from sim import rng, runner, sched
from sim.base import BaseCheck

STRS = ['Ab', 'ab', 'a b', 'a  b', u'é', 'e', 'x', 'y']
STR_PARTNER = {'Ab': 'ab', 'ab': 'Ab', 'a b': 'a  b', 'a  b': 'a b', u'é': 'e', 'e': u'é'}
BAD_FILTERS = ['and and', '==', 'n == ', '(t1', 't1 and', '->x', '"str"', 'n === 3',
               # well-formed, compiled and cached, but failing on the first row they are evaluated on (units differ, int < str)
               'q==-1degF', 'q<1m', 'n<"x"']
HIST_ROWS = 56


def build_grid(hs, spec):
    g = hs.Grid(version='3.0', columns=[('id', []), ('n', []), ('s', []), ('siteRef', [])])
    n = spec['nrows']
    for j in range(n):
        row = {'id': 'r%d' % j, 'n': j, 's': STRS[j % len(STRS)],
               # one value per literal kind of the filter grammar (each has its own parse action)
               'geo': hs.Coordinate(float(j), float(j) / 2), 'u': hs.Uri('http://x/%d' % j), 'b': j % 3 == 0,
               'r': hs.Ref('p%d' % (j % 4)),
               # negative numbers: -1 and -2 are different numbers with the same hash()
               'q': hs.Quantity(float(-j), 'kW'), 'g2': hs.Coordinate(-float(j), 45.5)}
        for t, members in spec['tags'].items():
            if j in members:
                row[t] = hs.MARKER
        tgt = spec['refs'].get(str(j))
        if tgt is not None:
            row['siteRef'] = hs.Ref('r%d' % tgt)
        g.append(row)
    return g


def expected_rows(spec, f):
    """Row numbers selected by pool filter f, by construction (no hszinc code involved)."""
    n = spec['nrows']
    tags = spec['tags']

    def has(j, t):
        return j in tags.get(t, [])
    k = f['kind']
    out = []
    for j in range(n):
        if k == 'has':
            ok = has(j, f['t'])
        elif k == 'not':
            ok = not has(j, f['t'])
        elif k == 'cmp':
            v = f['v']
            ok = {'==': j == v, '!=': j != v, '<': j < v, '>=': j >= v, '>': j > v, '<=': j <= v}[f['o']]
        elif k == 'and':
            ok = has(j, f['t']) and j < f['v']
        elif k == 'or':
            ok = has(j, f['t']) or has(j, f['u'])
        elif k == 'str':
            ok = (STRS[j % len(STRS)] == f['s']) == (f['o'] == '==')
        elif k == 'ref':
            tgt = spec['refs'].get(str(j))
            ok = tgt is not None and has(tgt, f['t'])
        elif k == 'paren':
            ok = (has(j, f['t']) or has(j, f['u'])) and j > f['v']
        elif k == 'noparen':
            ok = has(j, f['t']) or (has(j, f['u']) and j > f['v'])      # `and` binds tighter than `or`
        elif k == 'coord':
            ok = j == f['v']
        elif k == 'uri':
            ok = j == f['v']
        elif k == 'bool':
            ok = (j % 3 == 0) == f['v']
        elif k == 'refeq':
            ok = (j % 4) == f['v']
        elif k == 'interval':
            ok = f['a'] <= j < f['b']
        elif k == 'qty':
            ok = (j == f['v']) if f['o'] == '==' else (j < f['v'])       # q is -j kW
        elif k == 'coordn':
            ok = j == f['v']
        elif k == 'scan':
            ok = j == f['v']
        else:
            raise AssertionError(k)
        if ok:
            out.append(j)
    return out


def chain_rows(spec, fa, fb):
    """Rows of grid.filter(A).filter(B), by construction: B is evaluated on the sub-grid, so a reference
    only resolves when its target row is itself in A's result."""
    first = expected_rows(spec, fa)
    if fb['kind'] != 'ref':
        second = set(expected_rows(spec, fb))
        return [j for j in first if j in second]
    out = []
    for j in first:
        tgt = spec['refs'].get(str(j))
        if tgt is not None and tgt in first and tgt in spec['tags'].get(fb['t'], []):
            out.append(j)
    return out


def filter_text(f):
    k = f['kind']
    if k == 'has':
        s = f['t']
    elif k == 'not':
        s = 'not ' + f['t']
    elif k == 'cmp':
        s = 'n %s %s' % (f['o'], f.get('lit', f['v']))
    elif k == 'and':
        s = '%s and n < %d' % (f['t'], f['v'])
    elif k == 'or':
        s = '%s or %s' % (f['t'], f['u'])
    elif k == 'str':
        s = u's %s "%s"' % (f['o'], f['s'])
    elif k == 'ref':
        s = 'siteRef->%s' % f['t']
    elif k == 'paren':
        s = '(%s or %s) and n > %d' % (f['t'], f['u'], f['v'])
    elif k == 'noparen':
        s = '%s or %s and n > %d' % (f['t'], f['u'], f['v'])
    elif k == 'coord':
        s = 'geo == C(%s,%s)' % (float(f['v']), float(f['v']) / 2)
    elif k == 'uri':
        s = 'u == `http://x/%d`' % f['v']
    elif k == 'bool':
        s = 'b == %s' % ('true' if f['v'] else 'false')
    elif k == 'refeq':
        s = 'r == @p%d' % f['v']
    elif k == 'interval':
        s = 'n >= %d and n < %d' % (f['a'], f['b'])
    elif k == 'qty':
        s = 'q%s-%dkW' % (f['o'], f['v'])          # (the grammar only takes a quantity literal written without blanks)
    elif k == 'coordn':
        s = 'g2 == C(-%s,45.5)' % float(f['v'])
    elif k == 'scan':
        s = 'n == %d or zz%d' % (f['v'], f['u'])
    else:
        raise AssertionError(k)
    return f.get('pre', '') + s + f.get('post', '')


OLDEST = {'kind': 'scan', 'v': 0, 'u': 99999, 'rows': [0]}      # pool[0] of every full-cache run: the oldest entry


def full_cache_texts():
    """What fills the as-shipped cache before a full-cache run starts, oldest first: the same texts for every such
    run (they do not depend on the run's grid; rows 0..7 exist in every grid)."""
    return [filter_text(OLDEST)] + [filter_text({'kind': 'scan', 'v': u % 8, 'u': 100000 + u}) for u in range(499)]


def interval_filter(q, nrows=HIST_ROWS):
    """q-th interval [a, b) over nrows rows: all distinct, all non-empty."""
    a = 0
    width = nrows
    while q >= width:
        q -= width
        a += 1
        width -= 1
    return {'kind': 'interval', 'a': a, 'b': a + q + 1}


class C13(BaseCheck):
    pid = 'C13'
    level = 'exploration'
    isolation = 'fork'
    run_timeout_s = 90.0
    step_unit = 'scheduler decision points (threads classes) / filter uses (history class)'
    tiers = {'quick': {'budget_s': 45, 'max_runs': 10 ** 9},
             'thorough': {'budget_s': 900, 'max_runs': 10 ** 9}}
    rule = ('seeded runs of 2-4 threads, 1-6 ops each (filter / filter+limit / hold+call / scan / bad filter / recheck) over an '
            'attributable filter pool; schedule strategies random(p) and PCT(d) at line (sometimes opcode) granularity in '
            'hszinc frames (10% of runs also pyparsing frames); cache capacity knob {1,2,3,8,as-shipped 500}; plus single-thread '
            'histories of up to 1500 uses around the capacity. distinct = hash of the context-switch sequence (from thread, '
            'file:line, to thread) for thread runs / (order kind, capacity, N, uses) for histories; non-trivial = at least two '
            'threads compiled distinct filters and at least one pre-emption happened inside hszinc code, or a history with at '
            'least one eviction')
    components = {
        'real': ['hszinc.grid_filter (parser, code generator, _filter_function, _FnWrapper, lru_cache object)', 'hszinc.grid.Grid.filter',
                 'pyparsing 3.3.2', 'functools.lru_cache (C)', 'CPython threads (parked/released one at a time)'],
        'stub': ['thread scheduling decisions (sim/sched.py)', 'sys.stdout (SimStdout: yield point + fault site)',
                 'pyparsing packrat_cache_lock / recursion_lock and any threading.Lock created by hszinc modules (SimLock)',
                 'automatic GC disabled; gc.collect() injected at a seeded decision point'],
    }
    assumptions = [
        'pre-emption at source-line (sometimes opcode) granularity inside hszinc frames is finer than real GIL hand-over: every explored schedule is possible-or-finer',
        'C code (lru_cache internals, dict) is atomic, as under the GIL',
        'expected rows come from a by-construction table; a candidate violation is confirmed by evaluating the implicated filter alone, as the first filter of a pristine forked process: if that already disagrees with the table the filter is mis-compiled whatever the history (C11, not C13) and the run is excused and counted',
        'injected stdout faults: only a silent wrong row set in a later fault-free call is a violation (DEGRADED otherwise)',
    ]

    def setup(self):
        with sched.lock_factory_during_import('hszinc') as lf:
            self.hszinc = runner.use_repo()
            import hszinc.grid_filter as gf
        self.gf = gf
        self.sim_locks_made = lf.made
        import pyparsing
        pyparsing.ParserElement.packrat_cache_lock = sched.SimRLock()
        pyparsing.ParserElement.recursion_lock = sched.SimRLock()
        import os
        self.repo_prefix = os.path.join(os.path.realpath(runner.REPO), 'hszinc') + os.sep
        self.pp_prefix = os.path.dirname(os.path.realpath(pyparsing.__file__)) + os.sep
        # the compiled-filter cache is an implementation detail: every access to it is optional, so that a
        # behaviour-preserving rewrite (renamed function, hand-written LRU, debug print removed) only switches
        # a knob or a probe off and never raises an alarm or breaks the check
        ff = getattr(gf, '_filter_function', None)
        self.shipped_cache = getattr(ff, 'cache_info', None) is not None
        # objects that exist before a run are never garbage of that run: keep injected
        # gc.collect() calls cheap by moving them out of the collector's sight
        gc.collect()
        gc.freeze()
        self.can_rewrap = hasattr(ff, '__wrapped__')

    # warm runs start from a process in which the lazily streamlined pyparsing grammar has
    # already been used once (64 ms the first time); cold runs (knob) start from the bare import
    def zygote_init(self, kind=None):
        old = sys.stdout
        sys.stdout = sched.SimStdout()
        try:
            g = self.hszinc.Grid(version='3.0', columns=[('id', [])])
            g.append({'id': self.hszinc.Ref('w'), 'n': 1})
            g.filter('warmup and n == 0 or not x->y')
            if hasattr(getattr(self.gf, '_filter_function', None), 'cache_clear'):
                self.gf._filter_function.cache_clear()
                if kind == 'full':
                    # the as-shipped cache filled to capacity once, here: every run forked from this zygote starts
                    # with the same 500 entries (oldest first) at no cost, so full-cache runs can be drawn often
                    for text in full_cache_texts():
                        g.filter(text)
                    self._cache_is_full = True
        finally:
            sys.stdout = old
        gc.collect()
        gc.freeze()

    def zygote_kind(self, case):
        kn = case.get('knobs', {})
        if case.get('class') in ('threads', 'threads-fault') and kn.get('prefill') == 500 and kn.get('cache') is None:
            return 'full'
        return None

    def wants_zygote(self, case):
        return bool(case['knobs'].get('warm', True))

    # ---------------------------------------------------------------- generate
    def _gen_pool(self, k, spec, size):
        tags = sorted(spec['tags'])
        n = spec['nrows']
        pool = []
        seen = {}
        tries = 0
        while len(pool) < size and tries < 200:
            tries += 1
            kind = k.choice(['has', 'not', 'cmp', 'cmp', 'and', 'or', 'str', 'str', 'ref', 'paren', 'coord', 'uri', 'bool', 'refeq',
                             'qty', 'coordn'])
            f = {'kind': kind}
            if kind in ('has', 'not', 'ref'):
                f['t'] = k.choice(tags)
            elif kind == 'cmp':
                f['o'] = k.choice(['==', '!=', '<', '>=', '>', '<='])
                f['v'] = k.randrange(n)
            elif kind == 'and':
                f['t'] = k.choice(tags)
                f['v'] = k.randrange(1, n)
            elif kind in ('or', 'paren'):
                f['t'], f['u'] = k.sample(tags, 2)
                f['v'] = k.randrange(n - 1)
            elif kind in ('coord', 'uri'):
                f['v'] = k.randrange(n)
            elif kind == 'bool':
                f['v'] = k.random() < 0.5
            elif kind == 'refeq':
                f['v'] = k.randrange(4)
            elif kind == 'str':
                f['o'] = k.choice(['==', '=='])
                f['s'] = k.choice(STRS[:n])
            elif kind == 'qty':
                f['o'] = k.choice(['==', '==', '>'])
                f['v'] = k.choice([1, 2, 1, 2, k.randrange(n)])
            elif kind == 'coordn':
                f['v'] = k.choice([1, 2, 1, 2, k.randrange(n)])
            rows = expected_rows(spec, f)
            if not rows or len(rows) == n:
                continue
            key = tuple(rows)
            if key in seen:
                continue
            seen[key] = 1
            f['rows'] = rows
            pool.append(f)
            # deliberate near-collision partner: a text differing only in case / inner blanks / an accent
            # inside a string literal denotes a different row
            if kind == 'paren' and k.random() < 0.6 and len(pool) < size:
                # same words without the parentheses: a different filter (printing the AST loses the difference)
                pf = {'kind': 'noparen', 't': f['t'], 'u': f['u'], 'v': f['v']}
                prow = expected_rows(spec, pf)
                if prow and len(prow) < n and tuple(prow) not in seen:
                    seen[tuple(prow)] = 1
                    pf['rows'] = prow
                    pool.append(pf)
            if kind in ('qty', 'coordn') and f['v'] in (1, 2) and len(pool) < size:
                # the same filter about -2 instead of -1 (equal hash(), different number)
                pf = dict(f, v=3 - f['v'])
                pf.pop('rows', None)
                prow = expected_rows(spec, pf)
                if prow and len(prow) < n and tuple(prow) not in seen:
                    seen[tuple(prow)] = 1
                    pf['rows'] = prow
                    pool.append(pf)
            if kind == 'str' and f['s'] in STR_PARTNER and k.random() < 0.6 and len(pool) < size:
                pf = {'kind': 'str', 'o': f['o'], 's': STR_PARTNER[f['s']]}
                prow = expected_rows(spec, pf)
                if prow and tuple(prow) not in seen:
                    seen[tuple(prow)] = 1
                    pf['rows'] = prow
                    pool.append(pf)
            # near-collisions a sloppy cache key would conflate: blank and literal variants
            if k.random() < 0.3 and len(pool) < size:
                v = dict(f)
                how = k.choice(['pre', 'post', 'lit'])
                if how == 'lit' and kind == 'cmp':
                    v['lit'] = '%d.0' % f['v']
                elif how == 'pre':
                    v['pre'] = ' '
                else:
                    v['post'] = '  '
                pool.append(v)
        return pool

    def generate(self, run_seed, i, tier):
        k = rng.stream(run_seed, 'knobs')
        r = rng.stream(run_seed, 'ops')
        roll = k.random()
        if roll < 0.12:
            return self._gen_history(run_seed, k, r, tier)
        cls = 'threads' if roll < 0.9 else 'threads-fault'
        nrows = k.choice([8, 8, 8, 8, 21])
        spec = {'nrows': nrows, 'tags': {}, 'refs': {}}
        for t in range(6):
            members = [j for j in range(nrows) if k.random() < 0.5]
            if not members:
                members = [k.randrange(nrows)]
            if len(members) == nrows:
                members = members[1:]
            spec['tags']['t%d' % t] = members
        for j in range(nrows):
            if k.random() < 0.6:
                spec['refs'][str(j)] = k.randrange(nrows)
        pool = self._gen_pool(k, spec, k.choice([3, 4, 6, 8]))
        nthreads = k.choice([2, 2, 3, 3, 4]) if tier == 'quick' else k.choice([2, 3, 3, 4, 5])
        threads = []
        scan_id = 0
        for t in range(nthreads):
            ops = []
            for _ in range(k.choice([1, 1, 2, 3, 4, 6]) if tier == 'quick' else k.choice([1, 2, 3, 4, 6, 9])):
                kind = r.choice(['filter', 'filter', 'filter', 'filter', 'limit', 'hold', 'callheld', 'scan', 'bad', 'recheck', 'spoil', 'chain', 'other', 'tail'])
                if kind == 'filter':
                    ops.append({'op': 'filter', 'f': r.randrange(len(pool))})
                elif kind == 'limit':
                    ops.append({'op': 'filter', 'f': r.randrange(len(pool)), 'limit': r.choice([1, 2])})
                elif kind == 'hold':
                    ops.append({'op': 'hold', 'f': r.randrange(len(pool))})
                elif kind == 'callheld':
                    ops.append({'op': 'callheld'})
                elif kind == 'scan':
                    m = r.choice([1, 2, 3, 4])
                    ops.append({'op': 'scan', 'ids': list(range(scan_id, scan_id + m))})
                    scan_id += m
                elif kind == 'bad':
                    ops.append({'op': 'bad', 'b': r.randrange(len(BAD_FILTERS))})
                elif kind == 'spoil':
                    ops.append({'op': 'spoil'})
                elif kind == 'tail':
                    # the filter on the full grid, then at once on a slice holding only its last row (same row object):
                    # what a reference resolved to in the full grid says nothing about the one-row grid
                    ops.append({'op': 'tail', 'f': r.randrange(len(pool))})
                elif kind == 'other':
                    # the same (possibly already compiled) filter evaluated on a DIFFERENT grid: the answer belongs to
                    # the grid it is asked of, not to the grid the filter was first used on
                    ops.append({'op': 'other', 'f': r.randrange(len(pool))})
                elif kind == 'chain':
                    # a filter evaluated on the RESULT of another filter: a reference whose target row is not in
                    # the sub-grid does not resolve there, whatever it resolved to on the full grid earlier
                    ops.append({'op': 'chain', 'f': r.randrange(len(pool)), 'g': r.randrange(len(pool))})
                else:
                    ops.append({'op': 'recheck'})
            threads.append({'ops': ops})
        strat = k.choice([{'kind': 'random', 'p': 0.02}, {'kind': 'random', 'p': 0.05}, {'kind': 'random', 'p': 0.2},
                          {'kind': 'random', 'p': 0.5}, {'kind': 'pct', 'd': 1}, {'kind': 'pct', 'd': 2},
                          {'kind': 'pct', 'd': 3}] + ([] if tier == 'quick' else [{'kind': 'pct', 'd': 4}, {'kind': 'pct', 'd': 5}]))
        knobs = {
            'cache': k.choice([1, 2, 3, 8, None, None]),
            'strategy': strat,
            'sched_seed': rng.derive(run_seed, 'sched') % (1 << 31),
            'opcode': k.random() < 0.08,
            'deps': k.random() < 0.10,
            'warm': k.random() < 0.96,
            'slow_io': k.random() < 0.3,
            'shared_grid': k.random() < 0.7,
            # the shared grid is a slice copy: its id index has not been built when the threads start, so
            # the first `a->b` path evaluations build it lazily while other threads are looking things up
            'unindexed': k.random() < 0.4,
            'gc_at': k.choice([None, None, k.randrange(50, 1500)]),
        }
        # a FULL cache when the threads start: the capacity's worth of filters is compiled first (oldest = the
        # first pool filter), then one thread keeps re-using that oldest, still cached filter while the others
        # compile new ones -- hits racing with evictions/recycling.  As-shipped capacity costs 500 compilations,
        # so it is drawn rarely.
        if knobs['cache'] is not None:
            knobs['prefill'] = knobs['cache'] if k.random() < 0.3 else 0
        else:
            knobs['prefill'] = 500 if k.random() < 0.3 else 0
        if k.random() < 0.12:
            # one thread parked at a point early in its run while the others run to completion (log-uniform position)
            knobs['strategy'] = {'kind': 'park', 'victim': k.randrange(8), 'at': int(round(3000 ** k.random()))}
        if knobs['prefill'] == 500 and k.random() < 0.6:
            # a hit on the oldest entry of a full cache, parked somewhere inside that hit (about 200 pre-emption points
            # from grid.filter() to the evaluation) while the others compile
            knobs['strategy'] = {'kind': 'park', 'victim': 0, 'at': k.randrange(1, 250)}
        if knobs['prefill'] == 500:
            # the oldest entry of the full cache is the same filter in every such run (the cache is filled once, in a
            # zygote): it becomes pool[0], and nothing else in the pool selects the same rows
            pool[:] = [dict(OLDEST)] + [f for f in pool if f['rows'] != OLDEST['rows']]
            if not knobs['warm']:
                knobs['warm'] = True
        if knobs['prefill']:
            threads[0]['ops'] = [{'op': 'filter', 'f': 0}, {'op': 'recheck'}, {'op': 'filter', 'f': 0}] + threads[0]['ops'][:2]
            for t in threads[1:]:
                m = k.choice([1, 2, 3])
                t['ops'].insert(0, {'op': 'scan', 'ids': list(range(scan_id, scan_id + m))})
                scan_id += m
        if knobs['unindexed'] and knobs['shared_grid']:
            # the lazily built id index only matters to filters that follow a reference: make sure several
            # threads open with one (distinct ones where the pool has them) while the index is still unbuilt
            refs = [i for i, f in enumerate(pool) if f['kind'] == 'ref']
            if not refs:
                tags = sorted(spec['tags'])
                for t in tags:
                    f = {'kind': 'ref', 't': t}
                    rows = expected_rows(spec, f)
                    if rows and len(rows) < nrows and not any(p['rows'] == rows for p in pool):
                        f['rows'] = rows
                        pool.append(f)
                        refs.append(len(pool) - 1)
                        if len(refs) == 2:
                            break
            for ti, t in enumerate(threads):
                if refs and k.random() < 0.7:
                    t['ops'].insert(0, {'op': 'filter', 'f': refs[ti % len(refs)]})
        if knobs['deps'] or k.random() < 0.15:
            # lazily initialised pieces of the shared grammar (pyparsing probes each parse action on its first
            # call) are only at risk when two threads use the same kind of literal for the first time together:
            # every thread opens with its own filter of one literal kind
            kindK = k.choice(['coord', 'uri', 'bool', 'refeq', 'str', 'paren', 'ref'])
            same = [i for i, f in enumerate(pool) if f['kind'] == kindK]
            tries = 0
            while len(same) < len(threads) and tries < 40:
                tries += 1
                f = {'kind': kindK}
                if kindK in ('coord', 'uri'):
                    f['v'] = k.randrange(nrows)
                elif kindK == 'bool':
                    f['v'] = k.random() < 0.5
                elif kindK == 'refeq':
                    f['v'] = k.randrange(4)
                elif kindK == 'str':
                    f['o'] = '=='
                    f['s'] = k.choice(STRS[:min(nrows, len(STRS))])
                elif kindK == 'ref':
                    f['t'] = k.choice(sorted(spec['tags']))
                else:
                    f['t'], f['u'] = k.sample(sorted(spec['tags']), 2)
                    f['v'] = k.randrange(nrows - 1)
                rows_ = expected_rows(spec, f)
                if not rows_ or len(rows_) == nrows or any(p['rows'] == rows_ for p in pool):
                    continue
                f['rows'] = rows_
                pool.append(f)
                same.append(len(pool) - 1)
            for ti, t in enumerate(threads):
                if same:
                    t['ops'].insert(0, {'op': 'filter', 'f': same[ti % len(same)]})
        case = {'class': cls, 'grid': spec, 'pool': pool, 'threads': threads, 'knobs': knobs, 'fault': None}
        if cls == 'threads-fault':
            f = rng.stream(run_seed, 'faults')
            case['fault'] = {'kind': f.choice(['epipe', 'enospc', 'closed', 'ascii']), 'at': f.randrange(1, 9)}
        return case

    def _gen_history(self, run_seed, k, r, tier):
        cap = k.choice([1, 2, 3, 8, 8, None]) if (tier == 'quick' and k.random() < 0.93) or k.random() < 0.7 else None
        kk = cap if cap is not None else 500
        N = max(1, k.choice([kk - 1, kk, kk + 1, 3 * kk]))
        N = min(N, 1500)
        uses = min(1500, k.choice([2 * N, 3 * N, N + 7])) if cap is None else min(120, k.choice([2 * N + 1, 4 * N, 6 * N + 3]))
        order = k.choice(['cyclic', 'hot+scan', 'zipf', 'stride'])
        if cap is None and k.random() < (0.25 if tier == 'quick' else 0.5):
            # "still-cached filters keep working after any number of later compilations": a hot set kept in
            # the as-shipped cache while up to 1500 other distinct filters are compiled (some of them twice)
            N, order = 1500, 'hot+scan'
            uses = k.choice([2400, 3200]) if tier == 'quick' else k.choice([3200, 6400])
        return {'class': 'history', 'knobs': {'cache': cap, 'warm': True}, 'N': N, 'uses': max(uses, 2), 'order': order,
                'order_seed': rng.derive(run_seed, 'order') % (1 << 31), 'ops': []}

    # ---------------------------------------------------------------- execute
    def _install_cache(self, cap, stats):
        gf = self.gf
        if cap is None:
            return 'as-shipped'
        if not hasattr(getattr(gf, '_filter_function', None), '__wrapped__'):
            stats['knob_unavailable.cache'] = 1
            return 'as-shipped'
        from functools import lru_cache
        gf._filter_function = lru_cache(maxsize=cap)(gf._filter_function.__wrapped__)
        return cap

    def execute(self, case):
        gc.disable()
        if case['class'] == 'solo':
            return self._exec_solo(case)
        if case['class'] == 'history':
            return self._exec_history(case)
        return self._exec_threads(case)

    def _exec_solo(self, case):
        """One filter evaluated as the first filter ever used in a pristine process: the reference
        the statement compares against."""
        hs = self.hszinc
        old = sys.stdout
        sys.stdout = sched.SimStdout()
        try:
            g = build_grid(hs, case['grid'])
            try:
                if case.get('tail'):
                    rows = self._ids(g[-1:].filter(case['text']))
                elif case.get('chain'):
                    rows = self._ids(g.filter(case['chain'][0]).filter(case['chain'][1]))
                else:
                    rows = self._ids(g.filter(case['text'], case.get('limit', 0)))
            except Exception as e:
                rows = ['exc', type(e).__name__]
        finally:
            sys.stdout = old
        return {'viol': None, 'digest': rng.digest(rows), 'stats': {}, 'distinct': [], 'nontrivial': False, 'steps': 1,
                'solo_rows': rows}

    def confirm(self, case, res, run_isolated):
        """A candidate violation stands only if the implicated filter, evaluated alone as the first
        filter of a pristine process, gives the by-construction rows.  If the solo evaluation already
        disagrees with the table, the filter is mis-compiled whatever the history or schedule (that is
        filter semantics, C11), and no C13 alarm is raised."""
        v = res.get('viol')
        solo = v.get('solo') if v else None
        if not solo:
            return res
        spec = {'nrows': HIST_ROWS, 'tags': {}, 'refs': {}} if solo.get('hist') else solo.get('spec2') or case['grid']
        sres = run_isolated(self, {'class': 'solo', 'grid': spec, 'text': solo['text'], 'limit': solo.get('limit', 0),
                                   'chain': solo.get('chain'), 'tail': solo.get('tail'), 'knobs': {'warm': True}})
        rows = sres.get('solo_rows')
        is_exc = isinstance(rows, list) and rows[:1] == ['exc']
        want = solo['want']
        if want == 'exception':
            independent = not is_exc          # the non-filter string is accepted even alone
        elif want is None:
            independent = is_exc              # raises even alone
        else:
            independent = rows != want
        if independent:
            res = dict(res)
            res['viol'] = None
            res['stats'] = dict(res.get('stats', {}))
            res['stats']['excused.same_result_when_evaluated_alone'] = 1
            res['nontrivial'] = False
        return res

    def _ids(self, grid_or_rows):
        return [int(row['id'][1:]) for row in grid_or_rows]

    def _exec_history(self, case):
        hs, gf = self.hszinc, self.gf
        stats = {'class.history': 1}
        out = sched.SimStdout()
        old = sys.stdout
        sys.stdout = out
        unraisable = []
        oldhook = sys.unraisablehook
        sys.unraisablehook = lambda u: unraisable.append(repr(u.exc_value))
        try:
            cap = self._install_cache(case['knobs'].get('cache'), stats)
            spec = {'nrows': HIST_ROWS, 'tags': {}, 'refs': {}}
            g = build_grid(hs, spec)
            N, uses = case['N'], case['uses']
            rnd = rng.stream(case['order_seed'], 'order')
            order = case['order']
            seq = []
            for u in range(uses):
                if order == 'cyclic':
                    q = u % N
                elif order == 'hot+scan':
                    q = (u // 2) % N if u % 2 else rnd.randrange(min(N, 3))
                elif order == 'zipf':
                    q = min(N - 1, int(rnd.paretovariate(1.1)) - 1)
                else:
                    q = (u * 7) % N
                seq.append(q)
            viol = None
            events = []
            texts = {}
            for u, q in enumerate(seq):
                f = texts.get(q)
                if f is None:
                    f = interval_filter(q)
                    f['text'] = filter_text(f)
                    texts[q] = f
                want = list(range(f['a'], f['b']))
                try:
                    got = self._ids(g.filter(f['text']))
                except Exception as e:
                    viol = {'clause': 'exception', 'detail': {'use': u, 'filter': f['text'], 'exc': type(e).__name__,
                                                              'msg': str(e)[:200], 'history': seq[max(0, u - 5):u + 1]},
                            'solo': {'text': f['text'], 'want': None, 'limit': 0, 'hist': True}}
                    break
                events.append((q, len(got)))
                if got != want:
                    other = [t['text'] for t in texts.values() if list(range(t['a'], t['b'])) == got]
                    viol = {'clause': 'wrong-rows', 'detail': {'use': u, 'filter': f['text'], 'got': got, 'want': want,
                                                               'is_result_of': other[:1]},
                            'solo': {'text': f['text'], 'want': want, 'limit': 0, 'hist': True}}
                    break
            compiles = sum(1 for (_, s) in out.writes if s.startswith('\nGenerate:'))
            stats['probe.compiles'] = compiles
            stats['probe.cache_hits'] = len(events) - compiles if len(events) >= compiles else 0
            capn = cap if isinstance(cap, int) else 500
            # evictions: from the debug prints when they exist, else by construction (more distinct filters used
            # than the cache holds means something was evicted)
            ev = max(0, compiles - capn, len(set(seq[:len(events)])) - capn)
            stats['probe.evictions'] = ev
            stats['probe.unraisable'] = len(unraisable)
            stats['capacity.%s' % cap] = 1
            return {'viol': viol, 'digest': rng.digest(events), 'stats': stats,
                    'distinct': ['hist/%s/%s/%d/%d' % (order, cap, N, uses)],
                    'nontrivial': ev > 0 and not viol, 'steps': len(events)}
        finally:
            sys.stdout = old
            sys.unraisablehook = oldhook

    def _exec_threads(self, case):
        hs, gf = self.hszinc, self.gf
        knobs = case['knobs']
        stats = {'class.' + case['class']: 1}
        spec = case['grid']
        pool = [dict(f, text=filter_text(f)) for f in case['pool']]
        fault = case.get('fault')
        out = sched.SimStdout(fault=None, slow=knobs.get('slow_io', False))
        old = sys.stdout
        sys.stdout = out
        unraisable = []
        oldhook = sys.unraisablehook
        sys.unraisablehook = lambda u: unraisable.append(repr(u.exc_value))
        try:
            cap = self._install_cache(knobs.get('cache'), stats)
            stats['capacity.%s' % cap] = 1
            shared = build_grid(hs, spec)
            if knobs.get('unindexed'):
                shared = shared[:]
                stats['unindexed_shared_grid_runs'] = 1
            if knobs.get('prefill') == 500 and knobs.get('cache') is None:
                if not getattr(self, '_cache_is_full', False):       # not forked from the full-cache zygote (replay, forced fork)
                    pre = build_grid(hs, spec)
                    for text in full_cache_texts():
                        pre.filter(text)
                stats['prefilled_cache_runs'] = 1
                stats['full_as_shipped_cache_runs'] = 1
            elif knobs.get('prefill'):
                pre = build_grid(hs, spec)
                pre.filter(pool[0]['text'])                      # the oldest entry: what thread 0 keeps using
                for u in range(knobs['prefill'] - 1):
                    pre.filter(filter_text({'kind': 'scan', 'v': u % spec['nrows'], 'u': 100000 + u}))
                stats['prefilled_cache_runs'] = 1
            out.writes = []
            out.n = 0
            out.fault = fault
            by_rows = {}
            for f in pool:
                by_rows.setdefault(tuple(f['rows']), f['text'])

            st = knobs['strategy']
            srnd = rng.stream(knobs.get('sched_seed', 0), 'sched')
            nthreads = len(case['threads'])
            total_ops = sum(len(t['ops']) for t in case['threads'])
            if st['kind'] == 'random':
                strat = sched.RandomStrategy(srnd, st['p'])
            elif st['kind'] == 'pct':
                strat = sched.PCTStrategy(srnd, nthreads, st['d'], max(50, 170 * max(1, total_ops)))
            elif st['kind'] == 'park':
                strat = sched.ParkStrategy(srnd, nthreads, st['victim'] % nthreads, st['at'])
            else:
                strat = sched.ReplayStrategy(st['decisions'])
            prefixes = [self.repo_prefix] + ([self.pp_prefix] if knobs.get('deps') else [])
            sim = sched.Sim(strat, prefixes, opcode=knobs.get('opcode', False))
            if knobs.get('gc_at'):
                def do_gc():
                    stats['fault.gc_collect'] = 1
                    gc.collect()
                sim.hooks[knobs['gc_at']] = do_gc

            results = []     # (tid, opidx, kind, filter text, expected, got | ('exc', name, msg))
            # a second grid with other content: every tag moved one row on, references re-pointed
            n_ = spec['nrows']
            spec2 = {'nrows': n_, 'tags': {t: sorted((j + 1) % n_ for j in m_) for t, m_ in spec['tags'].items()},
                     'refs': {str((int(j) + 1) % n_): (v + 2) % n_ for j, v in spec['refs'].items()}}
            grid2 = build_grid(hs, spec2)

            def make_body(tid, prog, grid):
                def body():
                    used = []
                    held = []
                    kept = []      # (filter, expected rows, result grid): previously obtained results
                    for oi, o in enumerate(prog['ops']):
                        op = o['op']
                        out.cur_op[tid] = oi
                        if op == 'filter':
                            f = pool[o['f'] % len(pool)]
                            lim = o.get('limit', 0)
                            want = f['rows'][:lim] if lim else f['rows']
                            res_grid = None
                            try:
                                res_grid = grid.filter(f['text'], lim)
                                got = self._ids(res_grid)
                            except Exception as e:
                                got = ('exc', type(e).__name__, str(e)[:160])
                            results.append((tid, oi, 'filter', o['f'] % len(pool), want, got))
                            used.append(f)
                            if not isinstance(got, tuple):
                                kept.append((o['f'] % len(pool), list(want), res_grid))
                        elif op == 'hold':
                            f = pool[o['f'] % len(pool)]
                            try:
                                fn = gf.filter_function(f['text'])
                                held.append((f, fn))
                            except Exception as e:
                                results.append((tid, oi, 'hold', o['f'] % len(pool), f['rows'], ('exc', type(e).__name__, str(e)[:160])))
                            used.append(f)
                        elif op == 'callheld':
                            for (f, fn) in held:
                                try:
                                    got = [j for j, row in enumerate(grid) if fn(grid, row)]
                                except Exception as e:
                                    got = ('exc', type(e).__name__, str(e)[:160])
                                results.append((tid, oi, 'held', pool.index(f), f['rows'], got))
                        elif op == 'scan':
                            for u in o['ids']:
                                f = {'kind': 'scan', 'v': u % spec['nrows'], 'u': u}
                                want = [u % spec['nrows']]
                                try:
                                    got = self._ids(grid.filter(filter_text(f)))
                                except Exception as e:
                                    got = ('exc', type(e).__name__, str(e)[:160])
                                results.append((tid, oi, 'scan', -1 - u, want, got))
                        elif op == 'bad':
                            b = BAD_FILTERS[o['b'] % len(BAD_FILTERS)]
                            try:
                                got = self._ids(grid.filter(b))
                                results.append((tid, oi, 'bad', b, 'exception', got))
                            except Exception as e:
                                results.append((tid, oi, 'bad', b, 'exception', ('exc', type(e).__name__, '')))
                        elif op == 'tail':
                            f = pool[o['f'] % len(pool)]
                            lastj = spec['nrows'] - 1
                            full = f['rows']
                            if f['kind'] == 'ref':
                                tgt = spec['refs'].get(str(lastj))
                                want = [lastj] if (tgt == lastj and lastj in spec['tags'].get(f['t'], [])) else []
                            else:
                                want = [lastj] if lastj in full else []
                            try:
                                got_full = self._ids(grid.filter(f['text']))
                                got = self._ids(grid[-1:].filter(f['text']))
                            except Exception as e:
                                got_full = full
                                got = ('exc', type(e).__name__, str(e)[:160])
                            results.append((tid, oi, 'filter', o['f'] % len(pool), full, got_full))
                            results.append((tid, oi, 'tail', o['f'] % len(pool), want, got))
                        elif op == 'other':
                            f = pool[o['f'] % len(pool)]
                            want = expected_rows(spec2, f)
                            try:
                                got = self._ids(grid2.filter(f['text']))
                            except Exception as e:
                                got = ('exc', type(e).__name__, str(e)[:160])
                            results.append((tid, oi, 'other', o['f'] % len(pool), want, got))
                        elif op == 'chain':
                            fa = pool[o['f'] % len(pool)]
                            fb = pool[o['g'] % len(pool)]
                            want = chain_rows(spec, fa, fb)
                            try:
                                got = self._ids(grid.filter(fa['text']).filter(fb['text']))
                            except Exception as e:
                                got = ('exc', type(e).__name__, str(e)[:160])
                            results.append((tid, oi, 'chain', (o['f'] % len(pool), o['g'] % len(pool)), want, got))
                            used.append(fa)
                        elif op == 'spoil':
                            # the caller edits a result it obtained earlier: later evaluations of the same
                            # filter must not see the edit (results are not shared between calls)
                            if kept:
                                fi, want, rg = kept[-1]
                                try:
                                    if len(rg):
                                        rg.pop()
                                    rg.append({'id': 'r0', 'n': -1})
                                    kept[-1] = (fi, self._ids(rg), rg)
                                except Exception as e:
                                    results.append((tid, oi, 'spoil', fi, 'ok', ('exc', type(e).__name__, str(e)[:160])))
                        elif op == 'recheck':
                            for f in list(used):
                                try:
                                    got = self._ids(grid.filter(f['text']))
                                except Exception as e:
                                    got = ('exc', type(e).__name__, str(e)[:160])
                                results.append((tid, oi, 'recheck', pool.index(f), f['rows'], got))
                    # previously obtained results still hold what they held
                    for (fi, want, rg) in kept:
                        try:
                            got = self._ids(rg)
                        except Exception as e:
                            got = ('exc', type(e).__name__, str(e)[:160])
                        results.append((tid, len(prog['ops']), 'kept', fi, want, got))
                return body

            for tid, prog in enumerate(case['threads']):
                grid = shared if knobs.get('shared_grid', True) else build_grid(hs, spec)
                sim.spawn(make_body(tid, prog, grid))
            harness_exc = None
            try:
                sim.run()
            except RuntimeError as e:
                harness_exc = str(e)
            # post phase: single thread, no pre-emption, every pool filter once more
            post = []
            if sim.deadlock is None and harness_exc is None:
                out.fault = None
                for fi, f in enumerate(pool):
                    try:
                        got = self._ids(shared.filter(f['text']))
                    except Exception as e:
                        got = ('exc', type(e).__name__, str(e)[:160])
                    post.append((-1, fi, 'post', fi, f['rows'], got))
        finally:
            sys.stdout = old
            sys.unraisablehook = oldhook
        if harness_exc is not None:
            raise runner.HarnessError(harness_exc)

        # ---- oracle
        fault_fired = list(out.fired)
        for kname in fault_fired:
            stats['fault.stdout_' + kname] = stats.get('fault.stdout_' + kname, 0) + 1
        if knobs.get('slow_io'):
            stats['fault.slow_stdout_runs'] = 1
        viol = None
        if sim.deadlock is not None:
            viol = {'clause': 'deadlock', 'detail': sim.deadlock}
        degraded = 0
        for rec in results + post:
            if viol:
                break
            tid, oi, kind, fi, want, got = rec
            chain = None
            if kind == 'chain':
                chain = [pool[fi[0]]['text'], pool[fi[1]]['text']]
                fi = fi[1]
            text = pool[fi]['text'] if isinstance(fi, int) and fi >= 0 else (filter_text({'kind': 'scan', 'v': (-1 - fi) % spec['nrows'], 'u': -1 - fi}) if isinstance(fi, int) else fi)
            if chain:
                text = '%s  [evaluated on the result of]  %s' % (chain[1], chain[0])
            if kind == 'bad':
                if not (isinstance(got, tuple) and got and got[0] == 'exc'):
                    viol = {'clause': 'wrong-rows', 'detail': {'thread': tid, 'op': oi, 'kind': kind, 'filter': text,
                                                               'why': 'a non-filter string returned rows', 'got': got},
                            'solo': {'text': text, 'want': 'exception', 'limit': 0}}
                continue
            if isinstance(got, tuple) and got and got[0] == 'exc':
                # only the call during which the stream actually failed is excused: the same error coming back from
                # a later call that wrote nothing is a remembered failure, not a degraded one
                if (tid, oi) in out.fired_ops and ('(injected)' in got[2] or got[1] == 'UnicodeEncodeError'):
                    degraded += 1    # the injected stdout fault itself surfaced; anything else is judged strictly
                    continue
                viol = {'clause': 'exception', 'detail': {'thread': tid, 'op': oi, 'kind': kind, 'filter': text,
                                                          'exc': got[1], 'msg': got[2]},
                        'solo': {'text': text, 'want': None, 'limit': 0}}
                continue
            if got != want:
                lim_note = None
                viol = {'clause': 'wrong-rows', 'detail': {'thread': tid, 'op': oi, 'kind': kind, 'filter': text,
                                                           'got': got, 'want': want,
                                                           'got_is_result_of': by_rows.get(tuple(got))},
                        'solo': {'text': text, 'want': want, 'limit': len(want) if kind == 'filter' and len(want) < len(pool[fi]['rows'] if isinstance(fi, int) and fi >= 0 else want) else 0}}
                if kind == 'kept':
                    # a result obtained earlier changed under the caller's feet: no solo evaluation can excuse that
                    del viol['solo']
                    viol['clause'] = 'kept-result-changed'
        if viol and viol.get('solo') and viol['detail'].get('kind') == 'tail':
            viol['solo']['tail'] = True
        if viol and viol.get('solo') and viol['detail'].get('kind') == 'other':
            viol['solo']['spec2'] = spec2
        if viol and viol.get('solo') and viol['detail'].get('kind') == 'chain':
            # the pristine-process confirmation must evaluate the same chain
            last = [rec for rec in results + post if rec[2] == 'chain' and rec[0] == viol['detail']['thread'] and rec[1] == viol['detail']['op']]
            if last:
                a_i, b_i = last[0][3]
                viol['solo'] = {'chain': [pool[a_i]['text'], pool[b_i]['text']], 'want': viol['solo']['want'], 'limit': 0, 'text': pool[b_i]['text']}
        for t in sim.threads:
            if t.exc is not None and not viol:
                raise runner.HarnessError('workload body raised: %r' % (t.exc,))
        if degraded:
            stats['degraded_after_stdout_fault'] = degraded

        compiles = [(tid, s) for (tid, s) in out.writes if s.startswith('\nGenerate:')]
        stats['probe.compiles'] = len(compiles)
        seen_txt = {}
        for tid, s in compiles:
            seen_txt.setdefault(s.split('\n')[2], set()).add(tid)
        stats['probe.same_filter_compiled_by_two_threads'] = sum(1 for v in seen_txt.values() if len(v) > 1)
        stats['probe.two_threads_inside_compile'] = sim.probes.get('two_threads_inside_compile', 0)
        stats['probe.lock_waits'] = sim.probes.get('lock_waits', 0)
        stats['probe.unraisable'] = len(unraisable)
        pre = [d for d in sim.decisions if d[3] == 'pre']
        stats['preemptions'] = len(pre)
        # reach: at which source lines of the code under test did a pre-emption actually happen
        for (frm, where, to) in sim.switch_log:
            if isinstance(where, tuple) and len(where) == 2 and isinstance(where[1], int) and str(where[0]).endswith('.py'):
                stats['site.%s:%d' % where] = 1
        stats['strategy.' + st['kind'] + ('.%s' % st.get('p', st.get('d', ''))) ] = 1
        if knobs.get('opcode'):
            stats['granularity.opcode'] = 1
        if knobs.get('deps'):
            stats['deps_preemptible_runs'] = 1
        if sim.capped:
            stats['capped_runs'] = 1
        if isinstance(cap, int):
            stats['probe.evictions'] = max(0, len(compiles) - cap)
        # which threads had to compile something is known by construction (first use of a text in this run,
        # the cache starts empty): it does not depend on the library's debug print
        first_use = {}
        for (tid, oi, kind, fi, want, got) in sorted(results, key=lambda rec: (rec[1], rec[0])):
            if kind in ('filter', 'scan', 'hold') and fi not in first_use:
                first_use[fi] = tid
        for tid, prog in enumerate(case['threads']):
            for o in prog['ops']:
                if o['op'] == 'hold':
                    first_use.setdefault(('hold', o['f'] % len(pool)), tid)
        compiling_threads = len(set(first_use.values())) if first_use else len(set(tid for tid, _ in compiles))
        if viol:
            viol['schedule'] = sim.decisions
            viol['detail']['strategy'] = st['kind']
        return {'viol': viol, 'digest': rng.digest((sim.switch_log, results, post)), 'stats': stats,
                'distinct': [rng.digest(sim.switch_log)],
                'nontrivial': compiling_threads >= 2 and len(pre) >= 1 and not viol, 'steps': sim.steps,
                'max': {'decision_points_in_one_run': sim.steps}}

    def post_sweep(self, agg):
        sites = sorted(k[5:] for k in agg.stats if k.startswith('site.'))
        for k in [k for k in agg.stats if k.startswith('site.')]:
            del agg.stats[k]
        gf = [x for x in sites if x.startswith('grid_filter.py:')]
        compile_window = [x for x in gf if 300 <= int(x.split(':')[1]) <= 340]
        return {'preemption_sites_distinct': len(sites),
                'preemption_sites_in_grid_filter': len(gf),
                'preemption_sites_compile_path': compile_window,
                'preemption_sites_other_files': sorted(set(x.split(':')[0] for x in sites if not x.startswith('grid_filter.py:')))}

    # ---------------------------------------------------------------- shrink
    def prepare_shrink(self, case, viol):
        if case['class'] == 'history' or not viol.get('schedule'):
            return case
        c = copy.deepcopy(case)
        c['knobs']['strategy'] = {'kind': 'replay', 'decisions': viol['schedule']}
        c['knobs']['gc_at'] = case['knobs'].get('gc_at')
        return c

    def candidates(self, case):
        if case['class'] == 'history':
            for u in (case['uses'] // 2, case['uses'] - 1):
                if 2 <= u < case['uses']:
                    c = copy.deepcopy(case)
                    c['uses'] = u
                    yield c
            return
        st = case['knobs']['strategy']
        # 1. fewer threads
        if len(case['threads']) > 1:
            for j in range(len(case['threads'])):
                c = copy.deepcopy(case)
                del c['threads'][j]
                if st['kind'] == 'replay':
                    ds = []
                    for d in st['decisions']:
                        if d[0] == j or d[2] == j:
                            continue
                        ds.append([d[0] - (d[0] > j), d[1], d[2] - (d[2] > j), d[3]])
                    c['knobs']['strategy'] = {'kind': 'replay', 'decisions': ds}
                yield c
        # 2. fewer ops per thread
        for j, t in enumerate(case['threads']):
            for sub in runner.ddmin_list(t['ops'], 0):
                c = copy.deepcopy(case)
                c['threads'][j]['ops'] = copy.deepcopy(sub)
                yield c
        # 3. fewer pre-emptions
        if st['kind'] == 'replay':
            pre_idx = [i for i, d in enumerate(st['decisions']) if d[3] == 'pre']
            for sub in runner.ddmin_list(pre_idx, 0):
                keep = set(sub)
                c = copy.deepcopy(case)
                c['knobs']['strategy']['decisions'] = [d for i, d in enumerate(st['decisions'])
                                                       if d[3] != 'pre' or i in keep]
                yield c
        # 4. simpler knobs
        for name, val in (('gc_at', None), ('slow_io', False), ('opcode', False), ('deps', False), ('warm', True), ('unindexed', False)):
            if case['knobs'].get(name) not in (val, None) or (name == 'warm' and not case['knobs'].get('warm')):
                c = copy.deepcopy(case)
                c['knobs'][name] = val
                yield c
        if case.get('fault'):
            c = copy.deepcopy(case)
            c['fault'] = None
            c['class'] = 'threads'
            yield c

    def describe(self, case):
        if case['class'] == 'history':
            return case
        return {'class': case['class'], 'knobs': {k: v for k, v in case['knobs'].items() if k != 'strategy'},
                'strategy': case['knobs']['strategy'] if case['knobs']['strategy']['kind'] != 'replay' else 'replay',
                'threads': [[(o['op'], filter_text(case['pool'][o['f'] % len(case['pool'])]) if 'f' in o else o.get('ids', o.get('b')))
                             for o in t['ops']] for t in case['threads']]}


CHECK = C13()
