"""C09 -- malformed ZINC raises ZincParseException: never mis-parsed, never a crash.

Engine `wire`: writer (hszinc.dump of a generated grid, or a stub peer emitting annotated
documents) -> faulty channel (sim/channel.py) -> reader (hszinc.parse / parse_scalar), all in
one process.  Per base document every truncation offset is delivered (fault enumeration for
small documents), plus seeded lost/duplicated/reordered/flipped/inserted/spliced/CRLF/
charset/BOM/NUL/version-skew deliveries, plus placed faults whose post-condition is
guaranteed-broken and which the reader therefore *must* reject.
"""
import copy
import signal
import threading
import sys

from sim import rng, runner, channel
from sim.base import BaseCheck
from models import zincpeer


class ClockExpired(BaseException):
    pass


class Clock(object):
    """Deterministic clock: counts grammar-element match attempts (pyparsing's
    ParserElement._parse); past the budget every further attempt raises, so the parse
    unwinds at once.  zincparser's bare `except:` may swallow the exception -- the
    `expired` flag is what the oracle reads."""

    def __init__(self):
        self.n = 0
        self.budget = None
        self.expired = False
        self.hung = False

    def start(self, budget):
        self.n = 0
        self.budget = budget
        self.expired = False
        self.hung = False


CLOCK = Clock()


class Reader(object):
    """A persistent reader thread: runs one job at a time, handed over and awaited by the main thread."""

    def __init__(self):
        self.t = None
        self.job = None
        self.go = threading.Event()
        self.done = threading.Event()

    def _loop(self):
        while True:
            self.go.wait()
            self.go.clear()
            try:
                self.job()
            finally:
                self.done.set()

    def run(self, job, timeout):
        if self.t is None:
            self.t = threading.Thread(target=self._loop, daemon=True)
            self.t.start()
        self.job = job
        self.done.clear()
        self.go.set()
        return self.done.wait(timeout)


READERS = [Reader(), Reader()]


class HangAlarm(BaseException):
    pass


def _on_alarm(*a):
    # zincparser's bare `except:` may swallow the exception: the flag is what the oracle reads
    CLOCK.hung = True
    raise HangAlarm()


def nesting(text):
    """Bracket nesting depth of a delivered text (strings are not tracked: an upper bound)."""
    d = m = 0
    i = 0
    while i < len(text):
        c = text[i]
        if c in '[{':
            d += 1
        elif c in ']}':
            d = max(0, d - 1)
        elif text.startswith('<<', i):
            d += 1
            i += 1
        elif text.startswith('>>', i):
            d = max(0, d - 1)
            i += 1
        m = max(m, d)
        i += 1
    return m


class C09(BaseCheck):
    pid = 'C09'
    level = 'fault_enumeration'
    isolation = 'fork'
    run_timeout_s = 150.0
    hang_timeout_s = 25.0
    step_unit = 'deliveries (one parse of one delivered text each)'
    tiers = {'quick': {'budget_s': 50, 'max_runs': 10 ** 9},
             'thorough': {'budget_s': 900, 'max_runs': 10 ** 9}}
    rule = ('per run one base document (stub peer with span annotations 70%, hszinc.dump of a generated grid 15%, scalar token 15%; '
            'versions 2.0/3.0; single or multi-grid) and its deliveries: the unfaulted text, EVERY truncation offset when the '
            'document has <= 70 characters (25 seeded offsets otherwise), 8-16 seeded channel faults (1-2 composed) and every '
            'applicable placed fault with a guaranteed-broken post-condition (truncation inside a string/URI, deleted opening/closing '
            'bracket, dropped/damaged header, illegal escape letter, upper-cased name, version skew to pre-3.0 over a 3.0 construct). '
            'distinct = distinct delivered texts; non-trivial = a delivered text that differs from its base and reaches the grammar '
            '(not rejected by the version sniff alone)')
    components = {
        'real': ['hszinc.parse / parse_scalar (parser.py splitting, zincparser grammar and parse actions, ZincParseException)',
                 'hszinc.dump (writer of 15% of base documents)', 'pyparsing 3.3.2', 'iso8601, pytz'],
        'stub': ['peer writer models/zincpeer.py', 'channel sim/channel.py', 'sys.stdout (SimStdout: records, optionally faulted)',
                 'deterministic clock: counter wrapped around pyparsing ParserElement._parse'],
    }
    assumptions = [
        'termination is judged on a deterministic clock (grammar match attempts) with budget 200 x the warm fault-free parse of the base + 20000, asserted while bracket nesting of the delivered text is <= 3; a wall alarm of 60 s per delivery backs it up for loops outside the grammar',
        'bytes that cannot be decoded in the declared charset are not "input text": the channel always delivers text (or bytes valid in the declared charset)',
        'a delivered text that still parses is not compared with the base grid (reader correctness on well-formed input is C03)',
        'with a faulted stdout the injected exception may escape (DEGRADED, counted); C09 quantifies over inputs, not over stdout states',
    ]

    def setup(self):
        self.hszinc = runner.use_repo()
        import pyparsing as pp
        self.pp = pp
        orig = pp.ParserElement._parseNoCache

        def counted(self_, instring, loc, do_actions=True, callPreParse=True):
            c = CLOCK
            c.n += 1
            if c.budget is not None and c.n > c.budget:
                c.expired = True
                raise ClockExpired()
            return orig(self_, instring, loc, do_actions, callPreParse)
        pp.ParserElement._parse = counted
        from hszinc.zincparser import ZincParseException
        self.ZPE = ZincParseException

    def on_timeout(self, case, run_isolated):
        """Termination is part of C09: a child that never comes back is not (only) a harness matter.  The
        wall alarm inside the child cannot interrupt C code (a regular expression that backtracks for
        weeks never returns to the interpreter), so the parent finds the delivery that does not terminate
        by running the deliveries one per child under a short watchdog, and reports it as clause `hang`."""
        import copy as _copy
        ds = case['deliveries']
        if len(ds) == 1:
            d = ds[0]
            return {'viol': {'clause': 'hang', 'detail': {'why': 'parse did not return within %ss (killed by the parent watchdog)'
                                                                 % (self.hang_timeout_s if case.get('hang_probe') else self.run_timeout_s),
                                                          'text': d['text'], 'faults': d['faults'], 'base': case['base']}},
                    'digest': '', 'stats': {'class.' + case['class']: 1, 'fault.child_killed_after_hang': 1}, 'distinct': [],
                    'nontrivial': False, 'steps': 1}
        old = self.run_timeout_s
        self.run_timeout_s = self.hang_timeout_s
        try:
            for d in ds:
                c = _copy.deepcopy(case)
                c['deliveries'] = [_copy.deepcopy(d)]
                c['hang_probe'] = True
                try:
                    res = run_isolated(self, c, self.hang_timeout_s)
                except runner.ChildTimeout:
                    return {'viol': {'clause': 'hang', 'detail': {'why': 'parse did not return within %ss (killed by the parent watchdog)' % self.hang_timeout_s,
                                                                  'text': d['text'], 'faults': d['faults'], 'base': case['base']}},
                            'digest': '', 'stats': {'class.' + case['class']: 1, 'fault.child_killed_after_hang': 1},
                            'distinct': [], 'nontrivial': False, 'steps': 1, 'case_override': c}
                if res.get('viol'):
                    return res
        finally:
            self.run_timeout_s = old
        raise runner.HarnessError('the run as a whole exceeded %ss but no single delivery exceeds %ss' % (old, self.hang_timeout_s))

    def zygote_init(self):
        import io
        old = sys.stdout
        sys.stdout = io.StringIO()
        try:
            for v in ('2.0', '3.0'):
                self.hszinc.parse('ver:"%s"\na,b\n1,"x"\n' % v)
                self.hszinc.parse_scalar('"x"', version=v)
        finally:
            sys.stdout = old

    def wants_zygote(self, case):
        return not case.get('cold')

    # ---------------------------------------------------------------- generate
    def _placed_faults(self, r, d):
        text = d.text
        out = []
        by = {}
        for (k, a, b) in d.spans:
            by.setdefault(k, []).append((a, b))
        for k in ('str', 'uri'):
            for (a, b) in by.get(k, [])[:6]:
                if b - a >= 2:
                    cut = r.randrange(a + 1, b)
                    out.append((text[:cut], 'trunc-in-' + k, 'text ends inside a quoted %s (opened at %d)' % (k, a)))
        for k in ('str', 'uri'):
            spans = [(a, b) for (a, b) in by.get(k, []) if b - a >= 2]
            if spans:
                a, b = r.choice(spans)
                at = r.randrange(a + 1, b)
                if text[at - 1] != '\\':
                    ch = r.choice(['\x01', '\x1f', '\t', '\x00', '\x0b'])
                    # delivered WITHOUT a must-reject claim: the statement's list of structurally broken documents
                    # names illegal escapes, not raw control characters (and pyparsing expands a raw tab to blanks
                    # before hszinc's grammar sees it, so hszinc accepts that one)
                    out.append((text[:at] + ch + text[at:], 'ctrl-in-' + k, None))
        # a date / time of day that does not exist: well-formed for the grammar, refused by the conversion that
        # runs inside the parse (a different exit from the parser than a grammar mismatch)
        if by.get('date'):
            a, b = r.choice(by['date'])
            bad = r.choice(['2021-02-30', '2021-13-01', '2021-00-10', '2021-04-31'])
            out.append((text[:a] + bad + text[b:], 'impossible-date', 'date at %d replaced by %s, which does not exist' % (a, bad)))
        if by.get('time'):
            a, b = r.choice(by['time'])
            bad = r.choice(['25:00:00', '24:00:00', '12:60:00', '12:00:61'])
            out.append((text[:a] + bad + text[b:], 'impossible-time', 'time at %d replaced by %s, which does not exist' % (a, bad)))
        opens = by.get('lopen', []) + by.get('dopen', [])
        if opens:
            a, b = r.choice(opens)
            out.append((text[:a] + text[a:b] + text[a:], 'extra-open', 'an opening bracket duplicated at %d: one more open than close' % a))
        for k, why in (('lclose', 'closing ] deleted'), ('dclose', 'closing } deleted'), ('gclose', 'closing >> deleted'),
                       ('lopen', 'opening [ deleted'), ('dopen', 'opening { deleted'), ('gopen', 'opening << deleted')):
            spans = by.get(k, [])
            if spans:
                a, b = r.choice(spans)
                out.append((text[:a] + text[b:], 'del-' + k, why + ' at %d' % a))
        if 'header' in by:
            a, b = by['header'][0]
            if b > 0 and text[b - 1] == '\n':
                # the header must end with a line feed: other characters that some string methods treat as line
                # boundaries (VT, FF, FS, GS, RS, NEL, LS, PS) do not terminate it; with and without CRs elsewhere
                ch = r.choice(['\x0b', '\x0c', '\x1c', '\x1d', '\x1e', u'\x85', u'\u2028', u'\u2029'])
                broken = text[:b - 1] + ch + text[b:]
                if r.random() < 0.6:
                    broken = broken.replace('\n', '\r\n')
                out.append((broken, 'header-nl-to-other-separator',
                            'the line feed ending the header replaced by %r (not a ZINC line terminator)' % ch))
            out.append((text[b:], 'drop-header', 'header line dropped'))
            how = r.choice([('ver:', 'vir:'), ('ver:', 'ver;'), ('ver:', 'Ver:'), ('ver:"', 'ver:'), ('ver:', ''), ('ver:"', 'ver: "')])
            out.append((text.replace(how[0], how[1], 1), 'damage-ver', 'version tag damaged: %r -> %r' % how))
            vspans = by.get('ver', [])
            if vspans and vspans[0][0] < b:
                va, vb = vspans[0]            # the quoted version string of the header, quotes included
                inner = text[va + 1:vb - 1]
                bad = r.choice(['""', '"abc"', '"v3"', '".."', text[va:vb - 1], '"-3.0"',
                                # a raw control character or line break inside the quoted version
                                '"%s\n%s"' % (inner[:1], inner[1:]), '"%s\x01%s"' % (inner[:1], inner[1:]),
                                '"%s\x1f"' % inner, '"%s\r%s"' % (inner[:2], inner[2:])])
                out.append((text[:va] + bad + text[vb:], 'malformed-version',
                            'version string replaced by %r (empty, non-numeric or unterminated)' % bad))
        escs = by.get('esc', [])
        if escs:
            a, b = r.choice(escs)
            if b - a == 2:
                in_uri = any(ua <= a < ub for (ua, ub) in by.get('uri', []))
                # besides letters illegal everywhere: escapes that are legal only in the OTHER kind of token
                pool_ = 'qx0 BFNRTa' + ('"$' if in_uri else ':/?#[]@&=;`')
                out.append((text[:a + 1] + r.choice(pool_) + text[b:], 'bad-escape', 'escape letter replaced by an illegal one at %d' % a))
            else:
                how = r.choice(['g', 'sign', 'blank', 'underscore', 'short'])
                if how == 'short' and text[b:b + 1] in ('"', '`'):
                    # the escape is the last thing in the literal: fewer than four hex digits before the closing quote
                    cut = r.choice([1, 2, 3])
                    out.append((text[:b - cut] + text[b:], 'bad-escape', '\\u escape with only %d hex digits at %d' % (4 - cut, a)))
                elif how in ('sign', 'blank', 'underscore'):
                    ch = {'sign': '+', 'blank': ' ', 'underscore': '_'}[how]
                    pos = a + 2 if how != 'underscore' else a + 4
                    out.append((text[:pos] + ch + text[pos + 1:], 'bad-escape', '%r among the four hex digits of a \\u escape at %d' % (ch, a)))
                else:
                    out.append((text[:a + 3] + 'g' + text[a + 4:], 'bad-escape', 'non-hex digit in \\u escape at %d' % a))
        # an upper-cased name is only guaranteed-broken where nothing else may start with a capital:
        # a column name (after a newline or a comma) or the first name inside a dict.  A name that follows
        # a value and a blank can legally be read as the time-zone label of a preceding date-time
        # ("2020-01-01T00:00:00Z N_1"), so those are delivered as ordinary flips, not as must-reject.
        names = [(a, b) for (a, b) in by.get('name', []) if a > 0 and text[a - 1] in '\n,{']
        if names:
            a, b = r.choice(names)
            out.append((text[:a] + text[a].upper() + text[a + 1:], 'upcase-name', 'first letter of a tag/column name upper-cased at %d' % a))
            a, b = r.choice(names)
            first = r.choice(['9', '_', '-', '0'])
            out.append((text[:a] + first + text[a + 1:], 'bad-first-char-of-name',
                        'first character of a tag/column name replaced by %r (names start with a lower-case ASCII letter)' % first))
            a, b = r.choice(by.get('name', []))      # any name, metadata keys included (no legal reading starts with such a character)
            ch = r.choice([u'\u00e9', u'\u00b5', u'\u0436', u'\uff11', u'\u00df', u'\u0663'])
            out.append((text[:b] + ch + text[b:], 'nonascii-in-name',
                        'non-ASCII alphanumeric %r appended to a tag/column name (names are ASCII letters, digits, underscore) at %d' % (ch, b)))
        for (a, b, inner_v3) in d.inner[:2]:
            # the header of a NESTED grid is a version header too: text[a-5:a] is 'ver:"' and text[b] the closing quote
            if text[a - 5:a] == 'ver:"' and text[b:b + 1] == '"':
                how = r.choice(['blank-before-colon', 'blank-after-colon', 'backticks', 'tag-before-ver', 'no-quotes'])
                hs_, he_ = a - 5, b + 1
                new = {'blank-before-colon': 'ver :"3.0"', 'blank-after-colon': 'ver: "3.0"', 'backticks': 'ver:`3.0`',
                       'tag-before-ver': 'm ver:"3.0"', 'no-quotes': 'ver:3.0'}[how]
                out.append((text[:hs_] + new + text[he_:], 'inner-damage-ver',
                            'version header of a nested grid malformed (%s) at %d' % (how, hs_)))
        for (a, b, inner_v3) in d.inner:
            if inner_v3:
                out.append((text[:a] + '2.0' + text[b:], 'inner-verskew-pre3',
                            'nested grid header rewritten to 2.0 over a 3.0-only value in its rows (at %d)' % a))
        if d.has_v3:
            to = r.choice(['2.0', '2.0', '1.0', '2', '2.0.0', '02.0'])    # every spelling of a pre-3.0 official version
            out.append((channel.verskew(text, to), 'verskew-pre3', 'header rewritten to %s over a 3.0-only construct' % to))
        return out

    def generate(self, run_seed, i, tier):
        r = rng.stream(run_seed, 'payload')
        f = rng.stream(run_seed, 'faults')
        k = rng.stream(run_seed, 'knobs')
        roll = k.random()
        case = {'cold': k.random() < 0.03, 'api': k.choice(['str', 'str', 'bytes', 'bytes-latin1']), 'single': k.random() < 0.5,
                'stdout_fault': None, 'ops': []}
        # configuration knobs: the pint-backed Quantity mode (the pinned suite runs everything in both
        # modes) and a host application that promotes warnings to errors
        cfg = rng.stream(run_seed, 'config')
        case['pint'] = cfg.random() < 0.15
        case['mode_as'] = cfg.choice(['const', 'const', 'zinc', 'ZINC', 'text/zinc'])     # every spelling of the mode the API accepts
        case['warn_error'] = cfg.random() < 0.06
        case['reader_threads'] = rng.stream(run_seed, 'readers').random() < 0.2
        if k.random() < 0.08:
            case['stdout_fault'] = {'kind': k.choice(['epipe', 'enospc', 'closed', 'ascii']), 'at': k.randrange(1, 4)}
        deliveries = []
        if roll >= 0.92:
            # arbitrary character strings: no writer at all, just noise over the grammar's alphabet,
            # half of the time behind a valid header so that the grammar proper is reached
            case['class'] = 'garbage'
            case['ver'] = k.choice(['2.0', '3.0'])
            alphabet = channel.META + channel.CONTROL + list('abcxyzTNMRCZ0123456789') + ['NA', 'ver:', 'INF', 'hex(', 'Bin(', '\\u00', 'T12:', '-01-']
            texts = []
            for _ in range(k.choice([10, 20, 30])):
                body = ''.join(r.choice(alphabet) for _ in range(r.choice([0, 1, 2, 4, 8, 16, 40])))
                texts.append(('ver:"%s"\n%s' % (case['ver'], body)) if r.random() < 0.5 else body)
            case['base'] = 'ver:"%s"\na\n1\n' % case['ver']
            deliveries.append({'text': case['base'], 'faults': [], 'must_reject': None})
            for t in texts:
                deliveries.append({'text': t, 'faults': ['garbage'], 'must_reject': None})
            others = texts[:2]
        elif roll < 0.15:
            case['class'] = 'scalar'
            ver = k.choice(['2.0', '3.0', '3.0', '3.0', '2.5', '4.0', '1.0', '3.0.1'])     # the version is the caller's argument, official or not
            case['ver'] = ver
            base = r.choice(zincpeer.SCALARS_3 if ver not in ('2.0', '1.0') else zincpeer.SCALARS_2)
            case['base'] = base
            others = list(zincpeer.SCALARS_3)
            deliveries.append({'text': base, 'faults': [], 'must_reject': None})
            for cut in range(len(base)):
                deliveries.append({'text': base[:cut], 'faults': ['truncate'], 'must_reject': None})
            alphabet = channel.META + channel.CONTROL[:8] + list('abcxyzTNMRCZ0123456789') + ['NA', 'INF', 'hex(', '\\u00', 'T12:', '-01-', 'kW', '%']
            for _ in range(6):
                deliveries.append({'text': ''.join(r.choice(alphabet) for _ in range(r.choice([1, 2, 3, 5, 9]))),
                                   'faults': ['garbage'], 'must_reject': None})
        else:
            maxr = 2 if k.random() < 0.9 else k.choice([3, 3, 12])
            d = zincpeer.gen_doc(r, max_cols=k.choice([1, 2, 3]), max_rows=maxr)
            case['ver'] = d.ver
            if roll < 0.30:
                case['class'] = 'dump'
                base = self._dump_base(r, d.ver)
                d = None
            elif roll < 0.40:
                # two grids in one text, separated by a blank line; with single=True (the default) the
                # caller gets the first grid only, but a broken later grid must still be rejected
                case['class'] = 'multi'
                d2 = zincpeer.gen_doc(r, max_cols=2, max_rows=1)
                base = d.text + '\n' + d2.text
                off = len(d.text) + 1
                for (text2, kind, why) in self._placed_faults(f, d2):
                    if kind == 'drop-header':
                        continue      # the second grid's rows would simply join the first grid's text
                    deliveries.append({'text': base[:off] + text2, 'faults': [kind + '@grid2'],
                                       'must_reject': (why + ' (in the second grid of the text)') if why else None})
                # round n: every grid of a text is held to the same header rules.  The version of the second grid is
                # respelled (an escape for its first digit, a blank or a tag around it); whether such a header is
                # acceptable is the library's call, but it has to be the same call for a first and for a later grid:
                # a grid text refused on its own must not be let in behind another grid
                t2 = d2.text
                if t2.startswith('ver:"') and t2[5:6].isdigit():
                    how = r.choice(['escape', 'escape', 'escape-upper', 'dollar', 'blank', 'tag-first'])
                    text2 = {'escape': 'ver:"\\u003' + t2[5] + t2[6:], 'escape-upper': 'ver:"\\U003' + t2[5] + t2[6:],
                             'dollar': 'ver:"\\$' + t2[5:], 'blank': 'ver: "' + t2[5:], 'tag-first': 'x ' + t2}[how]
                    deliveries.append({'text': base[:off] + text2, 'faults': ['respelled-version@grid2'], 'must_reject': None,
                                       'alone': text2})
                d = None
            else:
                case['class'] = 'peer'
                base = d.text
            case['base'] = base
            others = [zincpeer.gen_doc(r, max_cols=2, max_rows=1).text for _ in range(2)]
            deliveries.append({'text': base, 'faults': [], 'must_reject': None})
            n = len(base)
            cuts = range(n) if n <= 70 else sorted(f.sample(range(n), 25))
            case['all_truncations'] = n <= 70
            for cut in cuts:
                deliveries.append({'text': base[:cut], 'faults': ['truncate'], 'must_reject': None})
            if d is not None:
                for (text, kind, why) in self._placed_faults(f, d):
                    deliveries.append({'text': text, 'faults': [kind], 'must_reject': why})
        for _ in range(k.choice([8, 12, 16]) if tier == 'quick' else k.choice([16, 24, 40])):
            text = case['base']
            kinds = []
            for _n in range(f.choice([1, 1, 2])):
                kind, text, _p = channel.random_fault(f, text, others)
                kinds.append(kind)
            deliveries.append({'text': text, 'faults': kinds, 'must_reject': None})
        case['deliveries'] = deliveries
        return case

    def _dump_base(self, r, ver):
        hs = self.hszinc
        import datetime
        g = hs.Grid(version=ver, columns=[('a', []), ('b', [('dis', 'B')])])
        g.metadata['m'] = hs.MARKER
        vals = [1, 2.5, 'str', u'café "q" $x', hs.Ref('r1', 'Dis'), hs.Quantity(12, 'kW'), True, None, hs.MARKER, hs.REMOVE,
                hs.Uri('http://x/`y'), hs.Coordinate(1.5, -2.5), datetime.date(2020, 2, 29), datetime.time(12, 34, 56),
                ]   # no Bin: hszinc cannot read back its own Bin(...) spelling (reader correctness, C03)
        if ver == '3.0':
            vals += [hs.NA, [1, 'a'], {'k': 1, 'm': hs.MARKER}, [[1], {'x': [2]}], hs.XStr('hex', 'deadbeef')]
        for _ in range(r.choice([1, 2])):
            g.append({'a': r.choice(vals), 'b': r.choice(vals)})
        import io
        return hs.dump(g)

    # ---------------------------------------------------------------- execute
    def _parse_once(self, case, text, budget, out):
        """One delivery through the reader under the deterministic clock."""
        hs = self.hszinc
        CLOCK.start(budget)
        arg = text
        kw = {}
        if case.get('api') == 'bytes':
            try:
                arg = text.encode('utf-8')
            except UnicodeEncodeError:
                arg = text      # lone surrogates cannot travel as UTF-8 bytes
        elif case.get('api') == 'bytes-latin1':
            try:
                arg = text.encode('latin-1')
                kw = {'charset': 'latin-1'}
            except UnicodeEncodeError:
                arg = text      # not representable in that charset: delivered as text
        res = {'outcome': None}
        mode = hs.MODE_ZINC if case.get('mode_as', 'const') == 'const' else case['mode_as']
        def work():
            try:
                if case['class'] == 'scalar':
                    v = hs.parse_scalar(arg, mode=mode, version=case['ver'], **kw)
                    res['outcome'] = 'value'
                    res['repr'] = type(v).__name__
                else:
                    g = hs.parse(arg, mode=mode, single=case.get('single', True), **kw)
                    res['outcome'] = 'grid'
                    res['repr'] = 'None' if g is None else (len(g) if isinstance(g, list) and not isinstance(g, hs.Grid) else 1)
            except ClockExpired:
                res['outcome'] = 'clock'
            except HangAlarm:
                res['outcome'] = 'hang'
            except BaseException as e:
                res['outcome'] = 'raise'
                res['exc'] = e

        signal.setitimer(signal.ITIMER_REAL, 60.0)
        try:
            if case.get('reader_threads'):
                # the deliveries of one run are read by two threads of the receiving process in turn (never at the same
                # time: the hand-over is the only scheduling, so the run stays a function of the seed); what one reader's
                # failed parse leaves behind must not stop the other
                self._delivery_no = getattr(self, '_delivery_no', 0) + 1
                if not READERS[self._delivery_no % 2].run(work, 25.0):
                    res['outcome'] = 'hang'
                    CLOCK.hung = True
            else:
                work()
        except HangAlarm:
            res['outcome'] = 'hang'
        finally:
            signal.setitimer(signal.ITIMER_REAL, 0)
        res['clock'] = CLOCK.n
        res['expired'] = CLOCK.expired
        if CLOCK.hung:
            res['outcome'] = 'hang'
        CLOCK.budget = None
        return res

    def _judge(self, case, d, res, text):
        """Strict oracle for one delivery.  Returns (clause, detail) or None."""
        hs = self.hszinc
        if res['outcome'] == 'hang':
            return 'hang', {'why': 'no result within the 60 s wall alarm'}
        exc = res.get('exc')
        if res['outcome'] == 'raise':
            if case['class'] == 'scalar':
                if not isinstance(exc, ValueError):
                    return 'crash', {'exc': type(exc).__name__, 'msg': str(exc)[:300], 'api': 'parse_scalar'}
            else:
                if not isinstance(exc, self.ZPE):
                    return 'crash', {'exc': type(exc).__name__, 'msg': str(exc)[:300], 'api': 'parse'}
                if not isinstance(exc, ValueError):
                    return 'crash', {'exc': type(exc).__name__, 'why': 'not a ValueError'}
                try:
                    s = str(exc)
                    line, col = exc.line, exc.col
                    gs = exc.grid_str
                except Exception as e2:
                    return 'position', {'why': 'exception attributes / str() failed: %r' % (e2,)}
                if not (isinstance(line, int) and isinstance(col, int)):
                    return 'position', {'line': repr(line), 'col': repr(col), 'why': 'not integers'}
                if (line, col) != (0, 0):
                    lines = gs.expandtabs().split('\n') if isinstance(gs, str) else ['']
                    ok = 1 <= line <= len(lines)          # a trailing newline already yields a last, empty line
                    if ok:
                        ln = lines[line - 1]
                        ok = 1 <= col <= len(ln) + 1
                    if not ok:
                        return 'position', {'line': line, 'col': col, 'nlines': len(lines),
                                            'line_len': len(lines[line - 1]) if 1 <= line <= len(lines) else None}
        if res['expired'] and nesting(text) <= 3:
            return 'clock', {'attempts': res['clock'], 'budget': res.get('budget'),
                             'why': 'grammar match attempts exceeded 200 x the fault-free parse of the base document'}
        if d.get('must_reject') and res['outcome'] in ('grid', 'value'):
            return 'accepted-broken', {'why': d['must_reject'], 'fault': d['faults'], 'returned': res.get('repr')}
        return None

    def execute(self, case):
        import warnings
        self._delivery_no = 0
        if case.get('pint'):
            self.hszinc.use_pint(True)       # process-wide flag; the child is discarded after the run
        with warnings.catch_warnings(record=True) as w:
            if case.get('warn_error'):
                # a host application that promotes warnings to errors: hszinc's "unsupported version" warning is
                # then raised inside the parse, and must still come out as ZincParseException / a ValueError
                warnings.simplefilter('error')
            else:
                warnings.simplefilter('always')
            res = self._execute(case)
            res['stats']['probe.version_warnings'] = len(w)
            if case.get('pint'):
                res['stats']['config.pint_mode_runs'] = 1
            if case.get('warn_error'):
                res['stats']['config.warnings_as_errors_runs'] = 1
            if case.get('reader_threads'):
                res['stats']['config.two_reader_threads_runs'] = 1
            return res

    def _execute(self, case):
        from sim import sched
        hs = self.hszinc
        stats = {'class.' + case['class']: 1}
        events = []
        out = sched.SimStdout(fault=None)
        old = sys.stdout
        sys.stdout = out
        oldh = signal.signal(signal.SIGALRM, _on_alarm)
        viol = None
        distinct = []
        nontrivial = 0
        steps = 0
        maxratio = 0.0
        try:
            base = case['base']
            ref = self._parse_once(case, base, None, out)
            base_ok = ref['outcome'] in ('grid', 'value')
            warm = ref['clock']
            if case.get('cold'):
                # first use of a version in a process builds and streamlines the grammar lazily:
                # calibrate on the second, warm, parse
                warm = self._parse_once(case, base, None, out)['clock']
                stats['cold_runs'] = 1
            if not base_ok:
                stats['base_rejected'] = 1
            budget = 200 * max(warm, 50) + 20000
            seen = set()
            for di, d in enumerate(case['deliveries']):
                text = d['text']
                if text in seen:
                    continue
                seen.add(text)
                steps += 1
                healthy = self._parse_once(case, text, budget, out)
                healthy['budget'] = budget
                for kname in d['faults']:
                    stats['fault.' + kname] = stats.get('fault.' + kname, 0) + 1
                oc = healthy['outcome']
                ename = type(healthy['exc']).__name__ if oc == 'raise' else None
                pos = (healthy['exc'].line, healthy['exc'].col) if oc == 'raise' and isinstance(healthy['exc'], self.ZPE) else None
                events.append((di, oc, ename, pos))
                stats['outcome.' + oc] = stats.get('outcome.' + oc, 0) + 1
                if warm:
                    maxratio = max(maxratio, healthy['clock'] / float(max(warm, 50)))
                bad = self._judge(case, d, healthy, text)
                if not bad and d.get('alone') and oc == 'grid':
                    alone = self._parse_once(case, d['alone'], budget, out)
                    if alone['outcome'] == 'raise' and isinstance(alone['exc'], self.ZPE):
                        bad = ('accepted-broken', {'why': 'the last grid of the text is refused when delivered on its own (%s) but '
                                                          'accepted behind another grid' % str(alone['exc'])[:80],
                                                   'fault': d['faults'], 'returned': healthy.get('repr')})
                    stats['probe.later_grid_checked_alone'] = stats.get('probe.later_grid_checked_alone', 0) + 1
                elif not bad and d.get('alone') and oc == 'raise':
                    # refused behind another grid as well: the relation holds without asking for the stand-alone verdict
                    stats['probe.later_grid_respelled_refused'] = stats.get('probe.later_grid_respelled_refused', 0) + 1
                if bad:
                    viol = {'clause': bad[0], 'detail': dict(bad[1], delivery=di, text=text, faults=d['faults'], base=base)}
                    break
                if d.get('must_reject'):
                    stats['probe.must_reject_rejected'] = stats.get('probe.must_reject_rejected', 0) + 1
                if pos == (0, 0):
                    stats['probe.position_unknown'] = stats.get('probe.position_unknown', 0) + 1
                if text != base and not (oc == 'raise' and pos == (0, 0) and 'Could not determine version' in str(healthy['exc'])):
                    nontrivial += 1
                    distinct.append(text)
                # purity: the same text gives the same outcome class and position again
                if di % 4 == 0:
                    again = self._parse_once(case, text, budget, out)
                    pos2 = (again['exc'].line, again['exc'].col) if again['outcome'] == 'raise' and isinstance(again['exc'], self.ZPE) else None
                    if again['outcome'] != oc or pos2 != pos or (oc == 'raise' and type(again['exc']) is not type(healthy['exc'])):
                        viol = {'clause': 'impure', 'detail': {'delivery': di, 'text': text, 'first': [oc, ename, pos],
                                                                'second': [again['outcome'], type(again.get('exc')).__name__, pos2]}}
                        break
                # faulted stdout: the injected exception may escape; a different grid may not come back
                sf = case.get('stdout_fault')
                if sf and oc == 'raise' and di % 3 == 1:
                    out.fault = dict(sf, at=out.n + sf['at'])
                    faulted = self._parse_once(case, text, budget, out)
                    out.fault = None
                    if out.fired:
                        stats['fault.stdout_' + sf['kind']] = stats.get('fault.stdout_' + sf['kind'], 0) + 1
                        del out.fired[:]
                        if faulted['outcome'] == 'raise' and not isinstance(faulted['exc'], self.ZPE):
                            stats['degraded.injected_exception_escaped'] = stats.get('degraded.injected_exception_escaped', 0) + 1
                    if faulted['outcome'] in ('grid', 'value'):
                        viol = {'clause': 'accepted-under-stdout-fault', 'detail': {'delivery': di, 'text': text,
                                                                                      'why': 'a text rejected with a healthy stdout was accepted with a faulted one'}}
                        break
                    after = self._parse_once(case, text, budget, out)
                    if after['outcome'] != oc:
                        viol = {'clause': 'impure', 'detail': {'delivery': di, 'text': text, 'why': 'outcome changed after a stdout fault'}}
                        break
        finally:
            sys.stdout = old
            signal.signal(signal.SIGALRM, oldh)
        stats['probe.error_path_prints'] = sum(1 for _ in out.writes)
        return {'viol': viol, 'digest': rng.digest(events), 'stats': stats, 'distinct': distinct,
                'nontrivial': nontrivial > 0 and not viol, 'steps': steps,
                'max': {'clock_ratio_x100_vs_warm_base': int(maxratio * 100)}}

    # ---------------------------------------------------------------- shrink
    def candidates(self, case):
        ds = case['deliveries']
        if len(ds) > 1:
            for sub in runner.ddmin_list(ds, 1):
                c = copy.deepcopy(case)
                c['deliveries'] = copy.deepcopy(sub)
                yield c
            return
        if case.get('stdout_fault'):
            c = copy.deepcopy(case)
            c['stdout_fault'] = None
            yield c
        if case.get('api') == 'bytes':
            c = copy.deepcopy(case)
            c['api'] = 'str'
            yield c
        for knob in ('pint', 'warn_error', 'cold'):
            if case.get(knob):
                c = copy.deepcopy(case)
                c[knob] = False
                yield c
        d = ds[0]
        if d.get('must_reject'):
            return        # the guarantee does not survive arbitrary text shrinking
        text = d['text']
        for sub in runner.ddmin_list(list(text), 0):
            c = copy.deepcopy(case)
            c['deliveries'][0]['text'] = ''.join(sub)
            yield c

    def describe(self, case):
        return {'class': case['class'], 'ver': case.get('ver'), 'api': case.get('api'), 'base': case['base'],
                'deliveries': len(case['deliveries']),
                'examples': [[d['faults'], d['text'][:120], d.get('must_reject')] for d in case['deliveries'][-6:]]}


CHECK = C09()
