"""Grid history machine shared by C14 (list behaviour) and C15 (lookup by id).

A run owns a pool of up to four live grids (a root grid plus grids derived from it by
slicing and filtering), each paired with a plain Python list holding the very same row
objects.  A seeded generator draws the history; the executor applies every operation to
grid and list, compares exception class parity, and then observes *every* grid of the pool
(so aliasing between a slice and its source shows up at once).

C14 clauses: len order getitem slice member exc-parity mutator-crash typeerror
             refused-changed derived
C15 clauses: stale wrong missing crash        (kept apart so that a recorded finding of one
                                               kind can never cover another)
"""
import collections
import copy
import json

from sim import rng
from sim.base import BaseCheck

C14_CLAUSES = ('len', 'order', 'getitem', 'slice', 'member', 'exc-parity', 'mutator-crash',
               'typeerror', 'refused-changed', 'derived', 'observer-crash')
C15_CLAUSES = ('stale', 'wrong', 'missing', 'crash')

NON_DICTS = [5, 'row', None, ['id'], ('id', 1), 2.5, '<sortabledict-with-list>', '<userdict-with-list>', '<mappingproxy-with-na>']


def non_dict(hs, i):
    """A value that is not a dict; some are mappings (they have .values()) holding a 3.0-only cell, which a grid
    must refuse with TypeError without looking inside."""
    v = NON_DICTS[i % len(NON_DICTS)]
    if v == '<sortabledict-with-list>':
        from hszinc.sortabledict import SortableDict
        return SortableDict([('id', 'm1'), ('v', [1, 2])])
    if v == '<userdict-with-list>':
        return collections.UserDict({'id': 'm2', 'v': [1]})
    if v == '<mappingproxy-with-na>':
        import types
        return types.MappingProxyType({'id': 'm3', 'v': hs.NA})
    return v
POOL_MAX = 4
MAX_ROWS = 80


class SourceFailed(Exception):
    pass


def failing_iter(items):
    for x in items:
        yield x
    raise SourceFailed('the iterator failed')


class _Sink(object):
    def write(self, s):
        return len(s)

    def flush(self):
        pass


def mk_id(hs, spec):
    if spec is None:
        return None
    if 's' in spec:
        return spec['s']
    if 'i' in spec:
        return spec['i']
    if 'f' in spec:
        return spec['f']
    if 'uri' in spec:
        return hs.Uri(spec['uri'])
    if 'bin' in spec:
        return hs.Bin(spec['bin'])
    if 'ref' in spec:
        return hs.Ref(spec['ref'])
    if 'refv' in spec:
        return hs.Ref(spec['refv'], 'dis')
    if 'refn' in spec:
        return hs.Ref(spec['refn'], spec.get('v', 5))       # a display value that is not a string
    if 'q' in spec:
        from hszinc.datatypes import BasicQuantity
        return BasicQuantity(spec['q'], u'\u00b0F')           # one unit throughout: quantities of different units do not compare
    raise AssertionError(spec)


def mk_row(hs, spec):
    # a row is any dict: instances of dict subclasses are rows too
    row = collections.OrderedDict() if spec.get('sub') else {}
    if spec.get('id') is not None:
        row['id'] = mk_id(hs, spec['id'])
    row['n'] = spec.get('n', 0)
    if 'x' in spec:
        row['x'] = spec['x']
    if spec.get('mk'):
        row['mk'] = hs.MARKER
    if spec.get('lst'):
        row['lst'] = [spec.get('n', 0)]      # a 3.0-only value: upgrades an unversioned grid
    return row


class GridMachine(BaseCheck):
    isolation = 'inproc'
    own_clauses = ()
    step_unit = 'grid operations, each followed by a full observation of every live grid'
    tiers = {'quick': {'budget_s': 40, 'max_runs': 10 ** 9},
             'thorough': {'budget_s': 900, 'max_runs': 10 ** 9}}
    components = {
        'real': ['hszinc.grid.Grid (MutableSequence primitives, extend, slicing, id index, reindex, filter)',
                 'hszinc.grid_filter (derived grids via filter)', 'collections.abc.MutableSequence mixins'],
        'stub': ['reference model: a plain list of the same row objects / linear scan by str(id)',
                 'sys.stdout replaced by a sink (filter compilation prints)'],
    }

    # ---------------------------------------------------------------- generate
    def generate(self, run_seed, i, tier):
        r = rng.stream(run_seed, 'ops')
        k = rng.stream(run_seed, 'knobs')
        cls = k.choice(['unique-str', 'unique-str', 'duplicates', 'mixed-kinds'])
        nrows = k.choice([5, 6, 7, 8, 8, 14, 30])      # mostly tiny (collisions), sometimes larger
        rows = []
        for j in range(nrows):
            if cls == 'unique-str':
                idspec = {'s': 'r%d' % j}
            elif cls == 'duplicates':
                idspec = k.choice([{'s': 'r%d' % j}, {'s': 'r%d' % j}, {'s': 'r%d' % (j // 2)}, None])
            else:
                idspec = k.choice([{'s': 'r%d' % j}, {'i': j}, {'i': j // 2}, {'ref': 'r%d' % j},
                                   {'ref': 'r%d' % (j // 2)}, {'refv': 'r%d' % j}, {'s': '%d' % j}, None,
                                   {'f': j + 0.5}, {'f': float(j // 2)}, {'s': ''},
                                   {'uri': 'http://x/%d' % j}, {'bin': 'text/r%d' % j}, {'uri': 'r%d' % j},
                                   {'s': u'cafe\u0301%d' % (j // 2)}, {'s': u'caf\u00e9%d' % (j // 2)},      # same glyphs, different strings
                                   {'s': u'\u2126%d' % (j // 2)}, {'s': u'\u03a9%d' % (j // 2)},
                                   {'refn': 'r%d' % (j // 2), 'v': 5 + j % 2}, {'q': 60 + j // 2}])
            rows.append({'id': idspec, 'n': j if k.random() < 0.8 else 0, 'mk': k.random() < 0.5})
            if k.random() < 0.15:
                rows[-1]['sub'] = True           # an OrderedDict row
            if k.random() < 0.3:
                rows[-1]['x'] = j + 0.5          # a float cell (membership is exact equality, as for a list)
        if cls != 'unique-str' and k.random() < 0.5:
            rows[-1] = dict(rows[0])   # equal but not identical
        gver = k.choice([None, None, '2.0', '3.0'])
        if gver != '2.0' and k.random() < 0.5:
            # some rows carry a list, so that an unversioned grid's version is raised by a ROW (a slice must
            # still report its source's version); never offered to a grid pinned below 3.0 (that refusal is C10)
            for rw in rows:
                if k.random() < 0.3:
                    rw['lst'] = True
        case = {'class': cls, 'gver': gver, 'rows': rows, 'plain_colmeta': k.random() < 0.4, 'front_column': k.random() < 0.3,
                'lookup_every': k.choice([1, 1, 2, 3, 0]),
                'ninit': k.choice([0, 0, 1, 2, 3, 4, nrows, 2 * nrows if cls != 'unique-str' else nrows])}
        kinds = ['append', 'insert', 'extend', 'iadd', 'set', 'del', 'delslice', 'pop', 'popi', 'remove',
                 'reverse', 'clear', 'slice', 'slice', 'filter', 'bad', 'extend_self', 'extend_grid', 'edit_id', 'lookup',
                 'dump', 'reparse_pair', 'hdr_refused', 'pint']
        enabled = [x for x in sorted(set(kinds)) if k.random() < 0.75]
        if not enabled:
            enabled = ['append', 'del']
        kinds = [x for x in kinds if x in enabled] + ['append', 'insert']
        n = k.choice([2, 3, 4, 6, 8, 12, 20, 40]) if tier == 'quick' else k.choice([2, 3, 4, 6, 10, 20, 40, 80])
        p_oob = k.choice([0.05, 0.15, 0.3])
        # lengths of the pool's models are simulated so that most indexes are valid
        lens = [case['ninit']]
        if k.random() < 0.3:
            case['two_roots'] = True
            case['ninit2'] = k.choice([0, 1, 2, 3])
            lens.append(case['ninit2'])
        ops = []
        fresh_id = 0
        for j in range(n):
            op = r.choice(kinds)
            g = r.randrange(len(lens))
            ln = lens[g]

            def idx(extra=0):
                if r.random() < p_oob or ln + extra == 0:
                    return r.choice([-ln - 2, -ln - 1, ln + extra, ln + extra + 1])
                return r.randrange(-ln - extra, ln + extra) if r.random() < 0.3 else r.randrange(0, ln + extra)
            rr = r.randrange(nrows)
            if op == 'append':
                ops.append({'op': 'append', 'g': g, 'r': rr}); lens[g] += 1
            elif op == 'insert':
                ops.append({'op': 'insert', 'g': g, 'i': idx(1), 'r': rr}); lens[g] += 1
            elif op in ('extend', 'iadd'):
                rs = [r.randrange(nrows) for _ in range(r.choice([0, 1, 2, 3]))]
                o = {'op': op, 'g': g, 'rs': rs, 'as': r.choice(['list', 'gen', 'tuple'])}
                if r.random() < 0.1:
                    o['bad_at'] = r.randrange(len(rs) + 1)
                    o['bad'] = r.randrange(len(NON_DICTS))
                    if r.random() < 0.4:
                        # ... and the source fails as well, after the item that must be refused: the refusal comes
                        # first (a list never gets to see the later failure either)
                        o['raise_at'] = len(rs) + 1
                        o['as'] = 'gen'
                elif r.random() < 0.08:
                    # the source of the rows fails part-way (a generator reading from a connection that drops): the
                    # rows handed over so far, or some of them, are in; what follows behaves like a list again
                    o['raise_at'] = r.randrange(len(rs) + 1)
                    o['as'] = 'gen'
                ops.append(o); lens[g] += len(rs)
            elif op == 'set':
                ops.append({'op': 'set', 'g': g, 'i': idx(), 'r': rr})
            elif op == 'del':
                ops.append({'op': 'del', 'g': g, 'i': idx()}); lens[g] = max(0, ln - 1)
            elif op == 'delslice':
                a = r.choice([None, 0, 1, 2, -1, -2, ln])
                b = r.choice([None, 1, 2, 3, -1, ln, ln + 1])
                c = r.choice([None, None, 1, 2, -1])
                ops.append({'op': 'delslice', 'g': g, 'a': a, 'b': b, 'c': c})
                lens[g] = ln - len(range(ln)[slice(a, b, c)])
            elif op == 'pop':
                ops.append({'op': 'pop', 'g': g}); lens[g] = max(0, ln - 1)
            elif op == 'popi':
                ops.append({'op': 'pop', 'g': g, 'i': idx()}); lens[g] = max(0, ln - 1)
            elif op == 'remove':
                ops.append({'op': 'remove', 'g': g, 'r': rr}); lens[g] = max(0, ln - 1)
            elif op == 'reverse':
                ops.append({'op': 'reverse', 'g': g})
            elif op == 'clear':
                ops.append({'op': 'clear', 'g': g}); lens[g] = 0
            elif op == 'slice':
                a = r.choice([None, 0, 1, 2, -1, -2])
                b = r.choice([None, 1, 2, 3, -1, ln])
                c = r.choice([None, None, None, 2, -1])
                ops.append({'op': 'slice', 'g': g, 'a': a, 'b': b, 'c': c})
                nl = len(range(ln)[slice(a, b, c)])
                if len(lens) < POOL_MAX:
                    lens.append(nl)
                else:
                    lens[1 + j % (POOL_MAX - 1)] = nl
            elif op == 'filter':
                o = {'op': 'filter', 'g': g, 'f': r.choice(['', '', 'mk', 'not mk', 'n > 2']),
                     'limit': r.choice([0, 0, 1, 2])}
                ops.append(o)
                if not (o['f'] == '' and o['limit'] == 0):
                    nl = ln // 2
                    if len(lens) < POOL_MAX:
                        lens.append(nl)
                    else:
                        lens[1 + j % (POOL_MAX - 1)] = nl
            elif op == 'bad':
                ops.append({'op': 'bad', 'g': g, 'how': r.choice(['append', 'insert', 'set']),
                            'i': idx(), 'bad': r.randrange(len(NON_DICTS))})
            elif op == 'extend_self':
                ops.append({'op': 'extend_self', 'g': g, 'how': r.choice(['extend', 'iadd'])}); lens[g] *= 2
            elif op == 'extend_grid':
                src = r.randrange(len(lens))
                ops.append({'op': 'extend_grid', 'g': g, 'src': src, 'how': r.choice(['extend', 'iadd'])})
                lens[g] += lens[src]
            elif op == 'edit_id':
                fresh_id += 1
                if cls == 'unique-str':
                    nid = {'s': 'e%d' % fresh_id}
                else:
                    nid = r.choice([{'s': 'e%d' % fresh_id}, {'i': 100 + fresh_id}, {'ref': 'e%d' % fresh_id},
                                    {'s': 'r%d' % r.randrange(nrows)}])
                ops.append({'op': 'edit_id', 'r': rr, 'id': nid})
            elif op == 'lookup':
                ops.append({'op': 'lookup'})
            elif op == 'dump':
                # a read-only use of the grid between two operations: writing it out
                ops.append({'op': 'dump', 'g': g, 'mode': r.choice(['zinc', 'json'])})
            elif op == 'reparse_pair':
                # the grid written twice into one multi-grid text and read back: two more grids, each its own list
                ops.append({'op': 'reparse_pair', 'g': g, 'mode': r.choice(['zinc', 'zinc', 'json'])})
                for _ in range(2):
                    if len(lens) < POOL_MAX:
                        lens.append(ln)
            elif op == 'hdr_refused':
                # a header store that a grid pinned below 3.0 refuses, survived by the caller: the rows are not concerned
                ops.append({'op': 'hdr_refused', 'g': g, 'where': r.choice(['meta', 'colmeta', 'newcol']),
                            'v': r.choice(['na', 'list'])})
            elif op == 'pint':
                ops.append({'op': 'pint', 'on': r.random() < 0.6})
        case['ops'] = ops
        return case

    # ---------------------------------------------------------------- execute
    def execute(self, case):
        import sys
        old = sys.stdout
        sys.stdout = _Sink()
        try:
            return self._execute(case)
        finally:
            sys.stdout = old
            try:
                self.hszinc.use_pint(False)      # process-wide mode: never left on for the next run
            except Exception:
                pass

    def _new_root(self, case, rows):
        hs = self.hszinc
        g = hs.Grid(version=case.get('gver'), metadata={'m1': 1, 'm2': hs.MARKER},
                    columns=[('id', []), ('n', [('unit', 'x')]), ('mk', [])])
        if case.get('front_column'):
            # a column placed explicitly in front: the order of columns is part of what a slice must reproduce
            g.column.add_item('first', {'z': 1}, index=0)
        if case.get('plain_colmeta'):
            # column metadata assigned as a plain dict whose keys are not in alphabetical order (what the JSON
            # reader produces): derived grids must carry it over unchanged, order included
            g.column['mk'] = {'zeta': 1, 'alpha': 2, 'mid': 3}
        model = []
        for j in range(case.get('ninit', 0)):
            row = rows[j % len(rows)]
            if case['class'] == 'unique-str' and any(row is x for x in model):
                continue
            g.append(row)
            model.append(row)
        return g, model

    expected_header = None

    def _execute(self, case):
        hs = self.hszinc
        cols = [('id', []), ('n', [('unit', 'x')]), ('mk', [])]
        if case.get('plain_colmeta'):
            cols[2] = ('mk', [('zeta', 1), ('alpha', 2), ('mid', 3)])
        if case.get('front_column'):
            cols.insert(0, ('first', [('z', 1)]))
        self.expected_header = ([('m1', 1), ('m2', hs.MARKER)], cols)
        own = self.own_clauses
        is14 = 'len' in own
        stats = {'class.' + case['class']: 1}
        events = []
        rows = [mk_row(hs, s) for s in case['rows']]
        unique = case['class'] == 'unique-str'
        try:
            root, rmodel = self._new_root(case, rows)
        except Exception as e:
            v = {'clause': 'mutator-crash', 'detail': {'step': 'init', 'exc': type(e).__name__, 'msg': str(e)[:200],
                                                       'why': 'appending dict rows to a new grid raised'}}
            if 'mutator-crash' not in own:
                v = {'clause': 'crash', 'detail': dict(v['detail'], why='building the id index while appending rows raised')}
            return {'viol': v, 'digest': rng.digest(['init-crash']), 'stats': stats, 'distinct': [], 'nontrivial': False, 'steps': 0}
        pool = [(root, rmodel)]
        if case.get('two_roots'):
            # a second, independent grid built from the same row objects: anything shared between Grid
            # instances by mistake (class-level state, default arguments) shows up as one answering for the other
            try:
                root2, rmodel2 = self._new_root(dict(case, ninit=case.get('ninit2', 0)), rows[::-1])
            except Exception as e:
                root2 = None
            if root2 is not None:
                pool.append((root2, rmodel2))
        used_keys = []          # every id value ever used in this run (present, deleted, replaced)
        for row in rows:
            if 'id' in row:
                used_keys.append(row['id'])
        viol = None
        steps = 0
        ok_mut = 0
        ok_obs_after = 0
        skeleton = [case['class']]
        orng = rng.stream(rng.derive(json.dumps(case['ops'], sort_keys=True)), 'observe')   # canonical: key order of a reloaded case differs
        lookup_every = case.get('lookup_every', 1)

        def fail(clause, detail):
            return {'clause': clause, 'detail': detail}

        def present(model, row):
            return any(row is x for x in model)

        derived_idx = set()      # pool positions holding derived grids (their version is explicit)

        def v3(row_or_rows):
            rs = row_or_rows if isinstance(row_or_rows, list) else [row_or_rows]
            return any(isinstance(x, dict) and 'lst' in x for x in rs)

        for step, o in enumerate(case['ops']):
            if viol:
                break
            steps += 1
            op = o['op']
            gi_target = o.get('g', 0) % len(pool)
            g, model = pool[gi_target]
            pinned_pre3 = (gi_target in derived_idx or case.get('gver') is not None) and str(g.version) in ('2.0', '1.0')
            before_ids = [id(x) for x in model]
            before_version = str(g.version)
            gexc = mexc = None
            gret = mret = None
            skipped = False
            new_entry = None
            new_pair = None
            allow_prefix = None
            try:
                if op in ('append', 'insert', 'set') and pinned_pre3 and v3(rows[o['r'] % len(rows)]):
                    skipped = True
                elif op in ('extend', 'iadd') and pinned_pre3 and v3([rows[x % len(rows)] for x in o['rs']]):
                    skipped = True
                elif op == 'extend_grid' and pinned_pre3 and v3(list(pool[o.get('src', 0) % len(pool)][1])):
                    skipped = True
                elif op == 'append':
                    row = rows[o['r'] % len(rows)]
                    if unique and present(model, row):
                        skipped = True
                    else:
                        model.append(row)
                        g.append(row)
                elif op == 'insert':
                    row = rows[o['r'] % len(rows)]
                    if unique and present(model, row):
                        skipped = True
                    else:
                        model.insert(o['i'], row)
                        g.insert(o['i'], row)
                elif op in ('extend', 'iadd'):
                    rs = []
                    for x in o['rs']:
                        row = rows[x % len(rows)]
                        if unique and (present(model, row) or any(row is y for y in rs)):
                            continue
                        rs.append(row)
                    if 'bad_at' in o:
                        at = min(o['bad_at'], len(rs))
                        seq = rs[:at] + [non_dict(hs, o['bad'])] + rs[at:]
                        allow_prefix = rs[:at]
                        mexc = TypeError('non-dict row')
                    elif 'raise_at' in o:
                        at = min(o['raise_at'], len(rs))
                        seq = rs[:at]
                        allow_prefix = rs[:at]
                        mexc = SourceFailed('the iterator failed')
                    else:
                        seq = list(rs)
                        model.extend(rs)
                    arg = seq if o.get('as') == 'list' else tuple(seq) if o.get('as') == 'tuple' else (x for x in seq)
                    if 'raise_at' in o:
                        arg = failing_iter(seq)      # (with bad_at: seq holds the non-dict item, the failure comes after it)
                        stats['fault.row_source_fails_midway'] = stats.get('fault.row_source_fails_midway', 0) + 1
                    if op == 'extend':
                        g.extend(arg)
                    else:
                        g0 = g
                        g += arg
                        if g is not g0:
                            viol = fail('derived', {'step': step, 'op': o, 'why': '+= returned a different object'})
                elif op == 'set':
                    row = rows[o['r'] % len(rows)]
                    i = o['i']
                    pos = i % len(model) if model and -len(model) <= i < len(model) else None
                    if unique and any(row is x for j, x in enumerate(model) if j != pos):
                        skipped = True
                    else:
                        try:
                            model[i] = row
                        except IndexError as e:
                            mexc = e
                        g[i] = row
                elif op == 'del':
                    try:
                        del model[o['i']]
                    except IndexError as e:
                        mexc = e
                    del g[o['i']]
                elif op == 'delslice':
                    sl = slice(o.get('a'), o.get('b'), o.get('c'))
                    del model[sl]
                    del g[sl]
                elif op == 'pop':
                    try:
                        mret = model.pop(o['i']) if 'i' in o else model.pop()
                    except IndexError as e:
                        mexc = e
                    gret = g.pop(o['i']) if 'i' in o else g.pop()
                    if mexc is None and gret is not mret:
                        viol = fail('getitem', {'step': step, 'op': o, 'why': 'pop returned a different row'})
                elif op == 'remove':
                    row = rows[o['r'] % len(rows)]
                    try:
                        model.remove(row)
                    except ValueError as e:
                        mexc = e
                    g.remove(row)
                elif op == 'reverse':
                    model.reverse()
                    g.reverse()
                elif op == 'clear':
                    del model[:]
                    g.clear()
                elif op in ('extend_self', 'extend_grid') and len(model) + len(pool[o.get('src', gi_target) % len(pool)][1]) > MAX_ROWS:
                    skipped = True       # keep grids small: repeated doubling would make a long history cost O(2^k)
                elif op == 'extend_self':
                    if unique and model:
                        skipped = True
                    else:
                        model.extend(list(model))
                        if o.get('how') == 'extend':
                            g.extend(g)
                        else:
                            g += g
                elif op == 'extend_grid':
                    # rows of another live grid (a Grid is passed, not a list)
                    sg, sm = pool[o.get('src', 0) % len(pool)]
                    add = [x for x in sm if not (unique and present(model, x))]
                    if unique and (sg is g or len(add) != len(sm)):
                        skipped = True
                    else:
                        model.extend(list(sm))
                        if o.get('how') == 'extend':
                            g.extend(sg)
                        else:
                            g += sg
                elif op == 'slice':
                    sl = slice(o.get('a'), o.get('b'), o.get('c'))
                    ng = g[sl]
                    new_entry = (ng, model[sl], g)
                elif op == 'filter':
                    f, lim = o['f'], o.get('limit', 0)
                    ng = g.filter(f, lim)
                    if f == '':
                        want = list(model)
                    elif f == 'mk':
                        want = [x for x in model if 'mk' in x]
                    elif f == 'not mk':
                        want = [x for x in model if 'mk' not in x]
                    else:
                        want = [x for x in model if x.get('n', 0) > 2]
                    if lim:
                        want = want[:lim]
                    if f == '' and not lim:
                        if ng is not g:
                            new_entry = (ng, want, g)
                    else:
                        new_entry = (ng, want, g)
                elif op == 'bad':
                    bad = non_dict(hs, o['bad'])
                    mexc = TypeError('non-dict row')
                    if o['how'] == 'append':
                        g.append(bad)
                    elif o['how'] == 'insert':
                        g.insert(o['i'], bad)
                    else:
                        if not (-len(model) <= o['i'] < len(model)):
                            mexc = (TypeError('x'), IndexError('x'))   # either refusal is list-like
                        g[o['i']] = bad
                elif op == 'edit_id':
                    row = rows[o['r'] % len(rows)]
                    nid = mk_id(hs, o['id'])
                    if unique and any(('id' in x and str(x['id']) == str(nid)) for x in rows if x is not row):
                        skipped = True
                    else:
                        row['id'] = nid
                        used_keys.append(nid)
                        # documented protocol: reindex() after editing an id in place; rows are
                        # shared between a grid and the grids derived from it
                        for (pg, pm) in pool:
                            pg.reindex()
                elif op == 'lookup':
                    pass
                elif op == 'dump':
                    try:
                        hs.dump(g, mode=hs.MODE_JSON if o.get('mode') == 'json' else hs.MODE_ZINC)
                        stats['quiet.dump'] = stats.get('quiet.dump', 0) + 1
                    except Exception:
                        stats['quiet.dump_raised'] = stats.get('quiet.dump_raised', 0) + 1      # what can be written is not this property's matter
                elif op == 'pint':
                    try:
                        hs.use_pint(bool(o.get('on')))
                        stats['quiet.pint_mode_switch'] = stats.get('quiet.pint_mode_switch', 0) + 1
                    except Exception:
                        pass
                elif op == 'hdr_refused':
                    if not pinned_pre3:
                        skipped = True
                    else:
                        val = hs.NA if o.get('v') == 'na' else [1]
                        key = 'zz%d' % step
                        try:
                            if o.get('where') == 'meta':
                                g.metadata[key] = val
                                del g.metadata[key]         # not refused (whether it should be is C10's matter): taken out again
                            elif o.get('where') == 'colmeta':
                                g.column['n'][key] = val
                                del g.column['n'][key]
                            else:
                                g.column[key] = {'q': val}
                                del g.column[key]
                        except Exception:
                            stats['fault.refused_header_store'] = stats.get('fault.refused_header_store', 0) + 1
                elif op == 'reparse_pair':
                    mode = hs.MODE_JSON if o.get('mode') == 'json' else hs.MODE_ZINC
                    try:
                        hs.use_pint(False)       # quantities read back in the other mode would not even compare with the ones in use
                        pair = hs.parse(hs.dump([g, g], mode=mode), mode=mode, single=False)
                    except Exception:
                        pair = None
                    if not pair or len(pair) != 2 or not all(isinstance(x, hs.Grid) for x in pair) or pair[0] is pair[1]:
                        skipped = True       # what survives a round trip is not this property's matter
                    else:
                        new_pair = [(pg_, list(pg_)) for pg_ in pair]
                else:
                    raise AssertionError(op)
            except Exception as e:
                gexc = e
            if viol:
                break
            flav = op + ('.' + o['how'] if 'how' in o else '')
            if skipped:
                events.append((step, flav, 'skipped'))
                stats['skipped_ops'] = stats.get('skipped_ops', 0) + 1
                continue
            # ---- exception parity with the list model
            if gexc is not None or mexc is not None:
                gname = type(gexc).__name__ if gexc is not None else None
                mclasses = tuple(type(x) for x in mexc) if isinstance(mexc, tuple) else ((type(mexc),) if mexc is not None else ())
                events.append((step, flav, 'raise', gname))
                skeleton.append(flav + '!')
                if gexc is not None and not mclasses:
                    viol = fail('mutator-crash', {'step': step, 'op': o, 'exc': gname, 'msg': str(gexc)[:200],
                                                  'model_len': len(model), 'why': 'a list accepts this operation'})
                    break
                if gexc is None:
                    viol = fail('typeerror' if mclasses[0] is TypeError else 'exc-parity',
                                {'step': step, 'op': o, 'why': 'list raises %s, grid accepted' % mclasses[0].__name__})
                    break
                if not isinstance(gexc, mclasses):
                    viol = fail('typeerror' if mclasses[0] is TypeError else 'exc-parity',
                                {'step': step, 'op': o, 'exc': gname, 'msg': str(gexc)[:200],
                                 'why': 'list raises %s' % '/'.join(c.__name__ for c in mclasses)})
                    break
                stats['refusal.' + flav] = stats.get('refusal.' + flav, 0) + 1
                if mclasses[0] is TypeError:
                    stats['fault.non_dict_row'] = stats.get('fault.non_dict_row', 0) + 1
                # refused: grid unchanged (single-row) or a prefix applied (multi-row)
                now = [id(x) for x in list(g)]
                if allow_prefix is not None:
                    okstates = [before_ids + [id(x) for x in allow_prefix[:n]] for n in range(len(allow_prefix) + 1)]
                    if now not in okstates:
                        viol = fail('refused-changed', {'step': step, 'op': o, 'why': 'rows after refused multi-row op are not model + prefix'})
                        break
                    model.extend(allow_prefix[:len(now) - len(before_ids)])
                elif now != before_ids:
                    viol = fail('refused-changed', {'step': step, 'op': o, 'exc': gname,
                                                    'why': 'a refused single-row operation changed the grid',
                                                    'len_before': len(before_ids), 'len_after': len(now)})
                    break
                elif mclasses[0] is TypeError and str(g.version) != before_version:
                    viol = fail('refused-changed', {'step': step, 'op': o, 'exc': gname,
                                                    'why': 'a refused non-dict row changed the grid version',
                                                    'was': before_version, 'now': str(g.version)})
                    break
            else:
                events.append((step, flav, 'ok'))
                skeleton.append(flav)
                if [id(x) for x in model] != before_ids:
                    ok_mut += 1
            if new_entry is not None:
                ng, want, src = new_entry
                # a derived grid: same version, metadata and columns as its source
                try:
                    same = (str(ng.version) == str(src.version)
                            and list(ng.metadata.items()) == list(src.metadata.items())
                            and [(c, list(m.items())) for c, m in ng.column.items()] ==
                            [(c, list(m.items())) for c, m in src.column.items()])
                except Exception as e:
                    same = False
                if not same and is14:
                    viol = fail('derived', {'step': step, 'op': o, 'why': 'version/metadata/columns differ from the source grid'})
                    break
                if not isinstance(ng, hs.Grid):
                    viol = fail('derived', {'step': step, 'op': o, 'why': 'result is not a Grid: %r' % type(ng)})
                    break
                entry = (ng, list(want))
                if len(pool) < POOL_MAX:
                    pool.append(entry)
                    derived_idx.add(len(pool) - 1)
                else:
                    pool[1 + step % (POOL_MAX - 1)] = entry
                    derived_idx.add(1 + step % (POOL_MAX - 1))
                stats['derived_grids'] = stats.get('derived_grids', 0) + 1
            if new_pair:
                for ent in new_pair:
                    for rw_ in ent[1]:
                        if isinstance(rw_, dict) and 'id' in rw_:
                            used_keys.append(rw_['id'])
                    if len(pool) < POOL_MAX:
                        pool.append(ent)
                        derived_idx.add(len(pool) - 1)
                    else:
                        at = 1 + (step + len(ent[1])) % (POOL_MAX - 1)
                        pool[at] = ent
                        derived_idx.add(at)
                stats['reparsed_pairs'] = stats.get('reparsed_pairs', 0) + 1
            # ---- observe every live grid
            do_lookup = (op == 'lookup') or (lookup_every and step % lookup_every == 0) or step == len(case['ops']) - 1
            for gi, (pg, pm) in enumerate(pool):
                bad = self._observe_list(pg, pm, rows, orng)
                if bad:
                    if is14:
                        viol = fail(bad[0], dict(bad[1], step=step, op=o, grid=gi))
                    else:
                        viol = {'clause': 'aborted-by-C14', 'detail': {}}
                    break
                if do_lookup:
                    bad = self._observe_lookup(pg, pm, used_keys, stats)
                    if bad and not is14:
                        viol = fail(bad[0], dict(bad[1], step=step, op=o, grid=gi))
                        break
            if ok_mut and not viol:
                ok_obs_after += 1
        if viol and viol['clause'] not in own:
            stats['aborted.' + viol['clause']] = 1
            viol = None
            aborted = True
        else:
            aborted = False
        skeleton.append('/'.join(str(len(pm)) for _, pm in pool))
        return {'viol': viol, 'digest': rng.digest(events), 'stats': stats, 'distinct': ['/'.join(skeleton)],
                'nontrivial': ok_mut >= 2 and ok_obs_after >= 1 and not viol and not aborted, 'steps': steps}

    # ---- C14 observations
    def _observe_list(self, g, model, rows, orng):
        try:
            n = len(model)
            if len(g) != n:
                return 'len', {'len': len(g), 'model_len': n}
            got = list(g)
            if len(got) != n or any(a is not b for a, b in zip(got, model)):
                return 'order', {'got': [r.get('n') for r in got], 'model': [r.get('n') for r in model]}
            if bool(g) != bool(model):
                return 'len', {'why': 'truthiness differs'}
            for i in range(-n - 1, n + 1):
                try:
                    want = model[i]
                    werr = None
                except IndexError:
                    werr = IndexError
                try:
                    have = g[i]
                    herr = None
                except IndexError:
                    herr = IndexError
                if werr != herr:
                    return 'getitem', {'i': i, 'why': 'IndexError parity', 'len': n}
                if werr is None and have is not want:
                    return 'getitem', {'i': i, 'len': n}
            if [x for x in reversed(g)] != model[::-1]:
                return 'order', {'why': 'reversed() differs'}
            for _ in range(3):
                a = orng.choice([None, 0, 1, 2, -1, -2, n, -n - 1])
                b = orng.choice([None, 0, 1, 2, 3, -1, n, n + 1])
                c = orng.choice([None, None, 1, 2, -1, -2])
                s = g[a:b:c]
                want = model[a:b:c]
                srows = list(s)
                if len(srows) != len(want) or any(x is not y for x, y in zip(srows, want)):
                    return 'slice', {'slice': [a, b, c], 'got_len': len(srows), 'want_len': len(want)}
                if str(s.version) != str(g.version) or list(s.metadata.items()) != list(g.metadata.items()) \
                        or [(cn, list(cm.items())) for cn, cm in s.column.items()] != [(cn, list(cm.items())) for cn, cm in g.column.items()]:
                    return 'slice', {'slice': [a, b, c], 'why': 'version/metadata/columns differ'}
                # ... and against the header known by construction, column by column, through iteration (the slice
                # and its source could both be wrong in the same way)
                if self.expected_header is not None:
                    for gg, which in ((g, 'grid'), (s, 'slice')):
                        got_cols = [(cn, [(kk, gg.column[cn][kk]) for kk in gg.column[cn]]) for cn in gg.column]
                        got_meta = [(kk, gg.metadata[kk]) for kk in gg.metadata]
                        if got_cols != self.expected_header[1] or got_meta != self.expected_header[0]:
                            return 'slice', {'slice': [a, b, c], 'why': 'header of the %s differs from the one it was built with' % which,
                                             'columns': [c_[0] for c_ in got_cols]}
            for row in rows:
                if (row in g) != (row in model):
                    return 'member', {'why': '`in` differs', 'n': row.get('n')}
                if g.count(row) != model.count(row):
                    return 'member', {'why': 'count differs', 'n': row.get('n')}
                try:
                    wi = model.index(row)
                except ValueError:
                    wi = None
                try:
                    hi = g.index(row)
                except ValueError:
                    hi = None
                if wi != hi:
                    return 'member', {'why': 'index differs', 'want': wi, 'got': hi}
                if n:
                    st = orng.choice([1, -1, n // 2])
                    try:
                        wi2 = model.index(row, st)
                    except ValueError:
                        wi2 = None
                    try:
                        hi2 = g.index(row, st)
                    except ValueError:
                        hi2 = None
                    if wi2 != hi2:
                        return 'member', {'why': 'index(row, start) differs', 'start': st, 'want': wi2, 'got': hi2}
            for bad in (5, 'row', None):
                if bad in g:
                    return 'member', {'why': 'non-row reported present'}
            # probes that are close to a stored row but not equal to it
            for row in model[:3]:
                if isinstance(row.get('x'), float):
                    near = dict(row)
                    near['x'] = row['x'] + 1e-7
                    if (near in g) != (near in model) or g.count(near) != model.count(near):
                        return 'member', {'why': 'a row differing by 1e-7 in one float cell is reported as present / counted'}
                if isinstance(row.get('x'), float) and row['x'] == row['x']:
                    same = dict(row)           # an equal copy IS a member, as for a list
                    if (same in g) != (same in model):
                        return 'member', {'why': 'an equal copy of a stored row is not reported as present'}
        except Exception as e:
            return 'observer-crash', {'exc': type(e).__name__, 'msg': str(e)[:200]}
        return None

    # ---- C15 observations
    def _observe_lookup(self, g, model, used_keys, stats):
        import numbers
        SENT = ('<sentinel>',)
        keys = []
        seen = set()
        for k in used_keys:
            for form in (k, str(k)):
                tag = (type(form).__name__, str(form))
                if tag not in seen:
                    seen.add(tag)
                    keys.append(form)
        keys.extend(['never-used', '@never'])
        for key in keys:
            cands = [r for r in model if 'id' in r and str(r['id']) == str(key)]
            variants = [('get', lambda: g.get(key, SENT))]
            if not isinstance(key, numbers.Number):
                variants.append(('getitem', lambda: g[key]))
            for name, call in variants:
                stats['lookups'] = stats.get('lookups', 0) + 1
                try:
                    res = call()
                    missing = res is SENT
                except KeyError:
                    if name == 'get':
                        return 'crash', {'key': repr(key), 'via': name, 'exc': 'KeyError', 'why': 'get() must return the default'}
                    missing = True
                    res = None
                except Exception as e:
                    return 'crash', {'key': repr(key), 'via': name, 'exc': type(e).__name__, 'msg': str(e)[:200]}
                if missing:
                    if cands:
                        return 'missing', {'key': repr(key), 'via': name, 'candidates': len(cands), 'len': len(model)}
                    stats['lookups_absent'] = stats.get('lookups_absent', 0) + 1
                    continue
                if not any(res is r for r in model):
                    return 'stale', {'key': repr(key), 'via': name, 'returned_n': res.get('n') if isinstance(res, dict) else repr(res),
                                     'len': len(model), 'candidates': len(cands)}
                if not any(res is r for r in cands):
                    return 'wrong', {'key': repr(key), 'via': name, 'returned_id': repr(res.get('id'))}
        # default default: get(key) without a default returns None when absent
        try:
            if g.get('never-used') is not None:
                return 'wrong', {'why': 'get() of unknown key is not None'}
        except Exception as e:
            return 'crash', {'key': 'never-used', 'via': 'get-nodefault', 'exc': type(e).__name__, 'msg': str(e)[:200]}
        return None

    def localise(self, case):
        if case.get('lookup_every', 1) != 1:
            yield dict(case, lookup_every=1)

    # ---------------------------------------------------------------- shrink
    def simplify(self, case):
        if case.get('ninit'):
            c = copy.deepcopy(case)
            c['ninit'] = case['ninit'] - 1
            yield c
        if case.get('lookup_every') not in (0,):
            c = copy.deepcopy(case)
            c['lookup_every'] = 0
            yield c
        if case.get('gver') is not None:
            c = copy.deepcopy(case)
            c['gver'] = None
            yield c
        for j, o in enumerate(case['ops']):
            if o.get('g'):
                c = copy.deepcopy(case)
                c['ops'][j]['g'] = 0
                yield c
            if o['op'] in ('extend', 'iadd') and o.get('rs'):
                c = copy.deepcopy(case)
                c['ops'][j]['rs'] = o['rs'][:-1]
                yield c
            for f in ('a', 'b', 'c'):
                if o.get(f) is not None and o['op'] in ('slice', 'delslice'):
                    c = copy.deepcopy(case)
                    c['ops'][j][f] = None
                    yield c
        for j, rw in enumerate(case['rows']):
            if rw.get('mk'):
                c = copy.deepcopy(case)
                c['rows'][j]['mk'] = False
                yield c
