"""C15 -- lookup by id always reflects the rows currently in the grid."""
from checks.grid_machine import GridMachine, C15_CLAUSES


class C15(GridMachine):
    pid = 'C15'
    own_clauses = C15_CLAUSES
    rule = ('same machine as C14; after operations (cadence drawn per run, always after the last) every id value ever used '
            'in the run (present, deleted, replaced, edited) in raw and str form plus two never-used keys is looked up through '
            'grid[key] (non-numeric keys) and grid.get(key, sentinel) on every live grid and compared with a linear scan of the '
            'model list. Run classes: unique-str / duplicates / mixed-kinds. distinct and non-trivial as for C14')
    assumptions = [
        'with duplicated ids any current row carrying that id is an acceptable answer',
        'in-place edits of a row id are followed by reindex() on every live grid sharing the row (documented protocol)',
        'runs in which the list behaviour itself diverges (a C14 violation) are aborted without a C15 verdict and counted',
    ]


CHECK = C15()
