"""C16 -- ordered metadata maps keep dict content and documented order under every history.

Engine `hist`: a seeded generator draws a history of map operations (including refused
ones: injected validator, unknown position key, duplicate with replace=False, both index
and key); the real SortableDict / MetadataObject / grid.metadata / grid.column[c] object is
stepped in lock-step with the reference model in models/orderedmap.py and compared after
every operation.
"""
import collections.abc
import copy
import gc
import json

from sim import rng
from sim.base import BaseCheck
from models import orderedmap as om

KEYS = ['ka', 'kb', 'kc', 'kd', 'ke'] + ['k%02d' % i for i in range(40)]
ABSENT = 'zz'
MUTATORS = ('set', 'add', 'del', 'pop', 'pop_at', 'popitem', 'setdefault', 'update', 'clear',
            'sort', 'reverse', 'append', 'extend')
POSITIONAL = ('add', 'pop_at', 'sort', 'reverse')


def fresh(key):
    """An equal but distinct string object (CPython shares 0- and 1-character strings, so keys have two or more)."""
    return bytes(key, 'utf-8').decode('utf-8') if isinstance(key, str) and len(key) > 1 else key


def canon(v):
    """Type-aware rendering of a stored value: 1, True and 1.0 compare equal in Python but are different
    values to store (and dump differently), so the comparison with the model must tell them apart."""
    if isinstance(v, list):
        return ('list', tuple(canon(x) for x in v))
    if isinstance(v, collections.abc.Mapping):      # column metadata: a dict and the MetadataObject made from it are the same content
        return ('map', tuple(sorted((k, canon(x)) for k, x in v.items())))
    return (type(v).__name__, repr(v))


def canon_items(items):
    return [(k, canon(v)) for k, v in items]


EQ_FAMILY = [1, True, 1.0, 0, False, 0.0]      # equal-but-different values (drawn by index)


NUM_KEYS = [3, 2.5, 1, 0.5, 7, 0, 4.25, 10, -1, 6.5] + [20 + i for i in range(40)]
SORT_KEYS = {'parity': lambda k: (int(k * 2) if not isinstance(k, str) else (ord(k[0]) if k else 0)) % 2, 'const': lambda k: 0}


class SourceFailed(Exception):
    pass


def failing_iter(pairs):
    for p in pairs:
        yield p
    raise SourceFailed('the iterator failed')


class KeyFailed(Exception):
    pass


PERMUTATION = ('<any order of the same content>',)


def failing_key(bad):
    def key(k):
        if k == bad and type(k) is type(bad):
            raise KeyFailed('the key function failed')
        return 0
    return key


def source_failed_outcomes(items, outs):
    """update()/extend() from a source that raises after some pairs: the pairs handed over are in (consumed one by
    one) or none is (the source was read completely first); the source's exception comes out."""
    if outs[0][0] != 'ok':
        return outs          # an item before the failure was refused: that refusal comes first
    res = [('raise', {'SourceFailed'}, outs[0][1])]
    if outs[0][1] != items:
        res.append(('raise', {'SourceFailed'}, items))
    return res


class Refuser(object):
    """Injected validator: refuses a seeded subset of values (the fault of this engine)."""

    def __init__(self, spec, counter):
        self.spec = spec
        self.counter = counter
        self.armed = False   # initial content is never refused

    def refuses(self, v):
        if not self.armed:
            return False
        if isinstance(v, list):
            return bool(self.spec.get('lists'))
        m = self.spec.get('mod')
        return bool(m) and isinstance(v, int) and v % m == self.spec.get('rem')

    def __call__(self, v):
        if self.refuses(v):
            self.counter['fault.validator_refusal'] = self.counter.get('fault.validator_refusal', 0) + 1
            raise ValueError('injected refusal of %r' % (v,))


def mkval(v):
    """Values are unique ints (every read attributable to one write) or {'list': n} -> [n]."""
    if isinstance(v, dict) and 'list' in v:
        return [v['list']]
    if isinstance(v, dict) and 'cm' in v:          # column metadata (values of grid.column)
        return {'u': v['cm']}
    if isinstance(v, dict) and 'cml' in v:         # column metadata holding a 3.0-only value
        return {'u': [v['cml']]}
    if isinstance(v, dict) and 'special' in v:     # the library's own singletons are values like any other
        import hszinc
        return {'remove': hszinc.REMOVE, 'marker': hszinc.MARKER, 'none': None}[v['special']]
    if isinstance(v, dict) and 'eqv' in v:         # one of a family of values that compare equal but differ
        return EQ_FAMILY[v['eqv'] % len(EQ_FAMILY)]
    return v


class C16(BaseCheck):
    pid = 'C16'
    level = 'exploration'
    isolation = 'inproc'
    step_unit = 'map operations, each followed by a full comparison with the model'
    tiers = {'quick': {'budget_s': 35, 'max_runs': 10 ** 9},
             'thorough': {'budget_s': 600, 'max_runs': 10 ** 9}}
    rule = ('seeded histories (2-40 ops) over 3-5 keys on SortableDict, MetadataObject, grid.metadata, '
            'grid.column[c] and grid.column itself; swarm: enabled op kinds, refusal kinds and position-argument mix drawn per run. '
            'distinct = (class, sequence of (op kind, position flavour, ok/refused), final length); '
            'non-trivial = at least two successful mutations of which one is positional '
            '(positioned add/relocation, pop_at, sort, reverse) followed by at least one full observation')
    components = {
        'real': ['hszinc.sortabledict.SortableDict', 'hszinc.metadata.MetadataObject',
                 'hszinc.grid.Grid (metadata / column wiring, validator)', 'hszinc.dump (order of metadata in dumps)'],
        'stub': ['injected validate_fn refusing a seeded value subset', 'reference model models/orderedmap.py'],
    }
    assumptions = [
        'keys are strings; values are unique ints or one-element lists (3.0-only kind, to trigger the grid validator)',
        'relocation of an existing key by numeric index: both readings of the docstring accepted',
        'add_item(k, pos_key=k) on an existing k: clean refusal or any position accepted',
        'popitem(): any one pair may be removed',
        'negative positional indexes are outside the statement ("non-negative index") and not generated',
    ]

    # ---------------------------------------------------------------- generate
    def generate(self, run_seed, i, tier):
        r = rng.stream(run_seed, 'ops')
        k = rng.stream(run_seed, 'knobs')
        cls = k.choice(['sd', 'sd', 'mo', 'mo', 'gmeta', 'cmeta', 'gcols'])
        nkeys = k.choice([3, 3, 4, 4, 5, 5, 9, 17, 33])     # mostly tiny (collisions), sometimes past any small-size fast path
        keys = KEYS[:nkeys]
        case = {'class': cls, 'nkeys': nkeys}
        if cls in ('sd', 'mo') and k.random() < 0.3:
            case['falsy_key'] = True       # the empty string is a perfectly good key (and a falsy one)
            keys = [''] + keys[1:]
        elif cls in ('sd', 'mo') and k.random() < 0.2:
            case['numeric_keys'] = True    # keys of several mutually comparable types: ints and floats (0 is falsy, too)
            keys = NUM_KEYS[:nkeys]
        if cls in ('sd', 'mo'):
            case['validator'] = k.choice([None, None, {'mod': 5, 'rem': 2}, {'mod': 3, 'rem': 0}])
            case['init_as'] = k.choice(['pairs', 'dict', 'none'])
        else:
            case['gver'] = k.choice([None, '2.0', '2.0', '3.0'])
            # where the map came from and who still holds its grid: the map of a slice or of a copy of the grid, and
            # a map whose grid the caller let go of (`md = hszinc.parse(text).metadata`) are maps like any other
            pk = rng.stream(run_seed, 'prov')
            if pk.random() < 0.3:
                case['prov'] = pk.choice(['slice', 'deepcopy'] if case['gver'] else ['deepcopy'])
            if pk.random() < 0.25:
                case['drop_grid'] = True
            case['init_as'] = k.choice(['pairs', 'dict', 'sd', 'none'])
        ninit = k.choice([0, 0, 1, 2, 3, nkeys, nkeys])
        init_keys = keys[:]
        k.shuffle(init_keys)
        case['init'] = [[kk, 10 + j] for j, kk in enumerate(init_keys[:ninit])]
        if cls == 'gcols':
            case['init'] = [[kk, {'cm': v}] for kk, v in case['init']]
        elif case['init'] and case.get('init_as') in ('pairs', 'none') and k.random() < 0.2:
            # a key named twice in the initial pairs: store-then-replace (one key, first position, last value)
            case['init'].append([case['init'][0][0], 99])
        kinds = ['set', 'add', 'add', 'add', 'del', 'pop', 'pop_at', 'popitem', 'setdefault', 'update',
                 'clear', 'sort', 'reverse']
        if cls not in ('sd', 'gcols'):
            kinds += ['append', 'extend']
        # swarm: a random subset of kinds is enabled in this run (always keep 'add')
        enabled = [x for x in sorted(set(kinds)) if x == 'add' or k.random() < 0.7]
        kinds = [x for x in kinds if x in enabled]
        p_refuse = k.choice([0.0, 0.1, 0.25])
        eqfam = cls in ('sd', 'mo', 'gmeta', 'cmeta') and k.random() < 0.25      # values that compare equal but differ in kind
        bigext = k.random() < 0.15                                                # a few very long extend()/update() calls
        n = k.choice([2, 3, 4, 6, 8, 12, 20, 40]) if tier == 'quick' else k.choice([2, 3, 4, 6, 8, 12, 20, 40, 80])
        ops = []
        for j in range(n):
            op = r.choice(kinds)
            v = 100 + j
            if cls in ('gmeta', 'cmeta') and r.random() < 0.2:
                v = {'list': 100 + j}
            if cls == 'gcols':
                v = {'cml': 100 + j} if r.random() < 0.2 else {'cm': 100 + j}
            elif eqfam and r.random() < 0.5:
                v = {'eqv': r.randrange(6)}
            elif cls in ('mo', 'gmeta', 'cmeta', 'sd') and r.random() < 0.08:
                v = {'special': r.choice(['remove', 'marker', 'none'])}
            key = r.choice(keys)
            if op == 'set':
                ops.append({'op': 'set', 'k': key, 'v': v})
            elif op == 'add':
                o = {'op': 'add', 'k': key, 'v': v}
                mode = r.choice(['none', 'index', 'index', 'pos_key', 'pos_key', 'pos_key'])
                if mode == 'index':
                    o['index'] = r.randrange(0, nkeys + 2)
                elif mode == 'pos_key':
                    o['pos_key'] = r.choice(keys)
                    if r.random() < p_refuse:
                        o['pos_key'] = r.choice([ABSENT, key])
                if mode != 'none' and r.random() < 0.5:
                    o['after'] = True
                elif mode == 'none' and r.random() < 0.25:
                    o['after'] = True       # a modifier without the argument it modifies: no position is given, so none changes
                if r.random() < p_refuse:
                    o['replace'] = False
                if r.random() < p_refuse / 2:
                    o['index'] = r.randrange(0, nkeys + 1)
                    o['pos_key'] = r.choice(keys)
                ops.append(o)
            elif op == 'del':
                ops.append({'op': 'del', 'k': key})
            elif op == 'pop':
                o = {'op': 'pop', 'k': key}
                if r.random() < 0.5:
                    o['default'] = -1
                ops.append(o)
            elif op == 'pop_at':
                ops.append({'op': 'pop_at', 'i': r.randrange(0, nkeys + 1)})
            elif op == 'popitem':
                ops.append({'op': 'popitem'})
            elif op == 'setdefault':
                ops.append({'op': 'setdefault', 'k': key, 'v': v})
            elif op == 'update':
                m = r.choice([1, 2, 3])
                ops.append({'op': 'update', 'pairs': [[r.choice(keys), ({'cm': 1000 * (jj + 1) + j} if cls == 'gcols' else
                                                                    {'special': 'remove'} if r.random() < 0.05 else 1000 * (jj + 1) + j)]
                                                      for jj in range(m)],
                            'as': r.choice(['pairs', 'dict', 'iter'])})
                if ops[-1]['as'] == 'iter' and r.random() < 0.1:
                    ops[-1]['raise_at'] = r.randrange(m + 1)       # the source of the pairs fails part-way
            elif op == 'clear':
                ops.append({'op': 'clear'})
            elif op == 'sort':
                o = {'op': 'sort', 'reverse': r.random() < 0.4}
                if r.random() < 0.4:
                    o['key'] = r.choice(['parity', 'const'])      # key functions that produce ties (sort must stay stable)
                elif r.random() < 0.15:
                    o['key'] = 'failing'          # a key function that raises for one particular key
                    o['fail_key'] = r.choice(keys)
                ops.append(o)
            elif op == 'reverse':
                ops.append({'op': 'reverse'})
            elif op == 'append':
                o = {'op': 'append', 'k': key}
                if r.random() < 0.6:
                    o['v'] = v
                if r.random() < p_refuse:
                    o['replace'] = False
                ops.append(o)
            elif op == 'extend':
                m = r.choice([1, 2, 3]) if not bigext else r.choice([3, 31, 32, 33, 48])
                o = {'op': 'extend', 'pairs': [[r.choice(keys), ({'special': 'remove'} if cls != 'gcols' and r.random() < 0.05 else 1000 * (jj + 1) + j)]
                                               for jj in range(m)],
                     'as': r.choice(['pairs', 'dict', 'sd', 'gen', 'zip', 'iter', 'sd-rev', 'sd-front'])}
                if r.random() < p_refuse:
                    o['replace'] = False
                if o['as'] in ('gen', 'iter') and r.random() < 0.12:
                    o['raise_at'] = r.randrange(len(o['pairs']) + 1)
                ops.append(o)
        case['observe_every'] = k.choice([1, 1, 1, 2, 3, 5, 0])     # 0 = only after the last operation
        if k.random() < 0.3:
            case['two'] = True
            for o in ops:
                o['m'] = r.randrange(2)
        case['ops'] = ops
        return case

    # ---------------------------------------------------------------- execute
    def _build(self, case, stats):
        hs = self.hszinc
        from hszinc.sortabledict import SortableDict
        from hszinc.metadata import MetadataObject
        cls = case['class']
        init = [[k, mkval(v)] for k, v in case.get('init', [])]
        grid = None
        if cls in ('sd', 'mo'):
            spec = case.get('validator')
            ref = Refuser(spec, stats) if spec else None
            K = SortableDict if cls == 'sd' else MetadataObject
            how = case.get('init_as', 'pairs')
            if how == 'none' or not init:
                m = K(validate_fn=ref)
                for k, v in init:
                    m[k] = v
            elif how == 'dict':
                m = K(dict(map(tuple, init)), validate_fn=ref)
            else:
                m = K([tuple(p) for p in init], validate_fn=ref)
            if ref:
                ref.armed = True
            refuses = ref.refuses if ref else (lambda v: False)
        else:
            gver = case.get('gver')
            pre3 = gver is not None and hs.Version(gver) < hs.VER_3_0
            refuses = (lambda v: isinstance(v, list) or (isinstance(v, dict) and any(isinstance(x, list) for x in v.values()))) \
                if pre3 else (lambda v: False)
            how = case.get('init_as', 'pairs')
            if how == 'dict':
                src = dict(map(tuple, init))
            elif how == 'sd':
                src = SortableDict([tuple(p) for p in init])
            else:
                src = [tuple(p) for p in init]
            if cls == 'gmeta':
                if how == 'none':
                    grid = hs.Grid(version=gver, columns=[('x', [])])
                    for k, v in init:
                        grid.metadata[k] = v
                else:
                    if isinstance(src, list):
                        src = SortableDict(src)
                    grid = hs.Grid(version=gver, metadata=src, columns=[('x', [])])
                m = grid.metadata
            elif cls == 'gcols':
                # the map under test is grid.column itself: column name -> column metadata
                grid = hs.Grid(version=gver, columns=[(k, dict(v)) for k, v in init] if how != 'none' else None)
                if how == 'none':
                    for k, v in init:
                        grid.column[k] = v
                m = grid.column
            else:
                if how == 'none':
                    grid = hs.Grid(version=gver, columns=[('c', []), ('d', [])])
                    for k, v in init:
                        grid.column['c'][k] = v
                else:
                    grid = hs.Grid(version=gver, columns=[('c', src), ('d', [])])
                m = grid.column['c']
            prov = case.get('prov')
            if prov:
                stats['prov.' + prov] = 1
                grid = grid[0:0] if prov == 'slice' else copy.deepcopy(grid)
                m = grid.metadata if cls == 'gmeta' else grid.column if cls == 'gcols' else grid.column['c']
            if case.get('drop_grid'):
                stats['grid_dropped'] = 1
                grid = None
                src = None
                gc.collect()
        return m, grid, refuses

    def _apply(self, m, o):
        from hszinc.sortabledict import SortableDict
        # every key handed to the map is a NEW string object equal to the one used before (keys that come out
        # of a parser or are built at run time are never the identical object): identity must not matter
        o = dict(o)
        for f in ('k', 'pos_key'):
            if isinstance(o.get(f), str):
                o[f] = fresh(o[f])
        if 'pairs' in o:
            o['pairs'] = [[fresh(k_), v_] for k_, v_ in o['pairs']]
        op = o['op']
        if op == 'set':
            m[o['k']] = mkval(o['v'])
            return None
        if op == 'add':
            kw = {}
            for a in ('after', 'index', 'pos_key', 'replace'):
                if a in o:
                    kw[a] = o[a]
            return m.add_item(o['k'], mkval(o['v']), **kw)
        if op == 'del':
            del m[o['k']]
            return None
        if op == 'pop':
            if 'default' in o:
                return m.pop(o['k'], o['default'])
            return m.pop(o['k'])
        if op == 'pop_at':
            return m.pop_at(o['i'])
        if op == 'popitem':
            return m.popitem()
        if op == 'setdefault':
            return m.setdefault(o['k'], mkval(o['v']))
        if op == 'update':
            pairs = [(k, mkval(v)) for k, v in o['pairs']]
            if 'raise_at' in o:
                m.update(failing_iter(pairs[:o['raise_at']]))
                return None
            m.update(dict(pairs) if o.get('as') == 'dict' else iter(pairs) if o.get('as') == 'iter' else pairs)
            return None
        if op == 'clear':
            m.clear()
            return None
        if op == 'sort':
            if o.get('key') == 'failing':
                m.sort(key=failing_key(o['fail_key']), reverse=o.get('reverse', False))
            elif o.get('key'):
                m.sort(key=SORT_KEYS[o['key']], reverse=o.get('reverse', False))
            else:
                m.sort(reverse=o.get('reverse', False))
            return None
        if op == 'reverse':
            m.reverse()
            return None
        if op == 'append':
            kw = {}
            if 'replace' in o:
                kw['replace'] = o['replace']
            if 'v' in o:
                return m.append(o['k'], mkval(o['v']), **kw)
            return m.append(o['k'], **kw)
        if op == 'extend':
            pairs = [(k, mkval(v)) for k, v in o['pairs']]
            kw = {}
            if 'replace' in o:
                kw['replace'] = o['replace']
            how = o.get('as')
            if how in ('sd-rev', 'sd-front'):
                # a source map whose visible order differs from the order its keys were first stored in
                src = SortableDict(pairs)
                if how == 'sd-rev':
                    src.reverse()
                elif len(src) > 1:
                    last = src.at(len(src) - 1)
                    lastv = src.pop_at(len(src) - 1)
                    src.add_item(last, lastv, index=0)
                m.extend(src, **kw)
                return None
            if 'raise_at' in o:
                m.extend(failing_iter(pairs[:o['raise_at']]), **kw)
                return None
            src = dict(pairs) if how == 'dict' else SortableDict(pairs) if how == 'sd' else \
                (p for p in pairs) if how == 'gen' else zip([p[0] for p in pairs], [p[1] for p in pairs]) if how == 'zip' else \
                iter(pairs) if how == 'iter' else pairs       # one-shot iterables are legal arguments too
            m.extend(src, **kw)
            return None
        raise AssertionError(op)

    def _outcomes(self, items, o, refuses):
        from hszinc.datatypes import MARKER
        op = o['op']
        if op == 'set':
            return om.set_outcomes(items, o['k'], mkval(o['v']), refused=refuses(mkval(o['v'])))
        if op == 'add':
            return om.add_outcomes(items, o['k'], mkval(o['v']), after=o.get('after', False),
                                   index=o.get('index'), pos_key=o.get('pos_key'),
                                   replace=o.get('replace', True), refused=refuses(mkval(o['v'])))
        if op == 'del':
            return om.del_outcomes(items, o['k'])
        if op == 'pop':
            return om.pop_outcomes(items, o['k'], 'default' in o, o.get('default'))
        if op == 'pop_at':
            return om.pop_at_outcomes(items, o['i'])
        if op == 'popitem':
            return om.popitem_outcomes(items)
        if op == 'setdefault':
            return om.setdefault_outcomes(items, o['k'], mkval(o['v']), refused=refuses(mkval(o['v'])))
        if op == 'update':
            pairs = [(k, mkval(v)) for k, v in o['pairs']]
            if o.get('as') == 'dict':
                pairs = list(dict(pairs).items())
            if 'raise_at' in o:
                return source_failed_outcomes(items, om.sequence_outcomes(items, pairs[:o['raise_at']], True, refuses))
            return om.sequence_outcomes(items, pairs, True, refuses)
        if op == 'clear':
            return om.clear_outcomes(items)
        if op == 'sort':
            if o.get('key') == 'failing':
                if o['fail_key'] not in [p[0] for p in items]:
                    return [('ok', list(items), om.ANY)]        # every key maps to 0: a stable sort changes nothing
                # the key function's exception comes out; the content is intact, the order preferably too (a sort that
                # fails may leave a list in any order: any permutation is accepted and adopted)
                return [('raise', {'KeyFailed'}, items), ('raise', {'KeyFailed'}, PERMUTATION)]
            if o.get('key'):
                f = SORT_KEYS[o['key']]
                return [('ok', sorted(items, key=lambda p: f(p[0]), reverse=o.get('reverse', False)), om.ANY)]
            return om.sort_outcomes(items, o.get('reverse', False))
        if op == 'reverse':
            return om.reverse_outcomes(items)
        if op == 'append':
            v = mkval(o['v']) if 'v' in o else MARKER
            return om.add_outcomes(items, o['k'], v, replace=o.get('replace', True), refused=refuses(v))
        if op == 'extend':
            pairs = [(k, mkval(v)) for k, v in o['pairs']]
            if o.get('as') in ('dict', 'sd', 'sd-rev', 'sd-front'):
                # later duplicates overwrite earlier ones when the source itself is a map
                d = {}
                for k, v in pairs:
                    d[k] = v
                pairs = list(d.items())
                if o.get('as') == 'sd-rev':
                    pairs = pairs[::-1]
                elif o.get('as') == 'sd-front' and len(pairs) > 1:
                    pairs = [pairs[-1]] + pairs[:-1]
            if 'raise_at' in o:
                return source_failed_outcomes(items, om.sequence_outcomes(items, pairs[:o['raise_at']], o.get('replace', True), refuses))
            return om.sequence_outcomes(items, pairs, o.get('replace', True), refuses)
        raise AssertionError(op)

    @staticmethod
    def _flavour(o):
        f = o['op']
        if o['op'] == 'add':
            if 'index' in o and 'pos_key' in o:
                f += '.both'
            elif 'index' in o:
                f += '.index'
            elif 'pos_key' in o:
                f += '.pos_key'
            if o.get('after'):
                f += '.after'
            if o.get('replace') is False:
                f += '.norepl'
        return f

    def _observe(self, m, items, keys):
        """Full comparison of the object with the model; returns (clause, detail) or None."""
        try:
            got = [[k, v] for k, v in m.items()]
            if len(m) != len(items):
                return 'len', {'len': len(m), 'model_len': len(items), 'items': got}
            gk = [p[0] for p in got]
            if len(set(gk)) != len(gk):
                return 'dupkeys', {'keys': gk}
            if canon_items(got) != canon_items(items):
                if sorted(canon_items(got)) == sorted(canon_items(items)):
                    return 'order', {'got': got, 'model': items}
                return 'content', {'got': got, 'model': items}
            if list(m.keys()) != gk or list(iter(m)) != gk or list(m.values()) != [p[1] for p in items]:
                return 'observer', {'what': 'keys/iter/values disagree with items()'}
            for j, (k, v) in enumerate(items):
                if m.at(j) != k or m.value_at(j) is not v and m.value_at(j) != v:
                    return 'observer', {'what': 'at/value_at', 'j': j}
                if m.index(k) != j or k not in m or canon(m[k]) != canon(v) or canon(m.get(k)) != canon(v):
                    return 'observer', {'what': 'index/in/getitem', 'k': k}
            for k in list(keys) + [ABSENT]:
                if k not in dict(map(tuple, items)):
                    if k in m or m.get(k, None) is not None:
                        return 'observer', {'what': 'absent key reported present', 'k': k}
                    try:
                        m[k]
                        return 'observer', {'what': 'getitem of absent key succeeded', 'k': k}
                    except KeyError:
                        pass
                    try:
                        m.index(k)
                        return 'observer', {'what': 'index of absent key succeeded', 'k': k}
                    except ValueError:
                        pass
            try:
                m.at(len(items))
                return 'observer', {'what': 'at(len) succeeded'}
            except IndexError:
                pass
            if items:
                # list-like conveniences: negative positions, index() with a start
                if m.at(-1) != items[-1][0] or canon(m.value_at(-1)) != canon(items[-1][1]):
                    return 'observer', {'what': 'at(-1)/value_at(-1)'}
                k0 = items[0][0]
                if len(items) > 1:
                    try:
                        m.index(k0, 1)
                        return 'observer', {'what': 'index(first key, 1) found it'}
                    except ValueError:
                        pass
                    if m.index(items[-1][0], 1) != len(items) - 1:
                        return 'observer', {'what': 'index(last key, 1)'}
        except Exception as e:  # an observer raising is a violation of "every key yielded can be read"
            return 'observer', {'what': 'observer raised', 'exc': type(e).__name__, 'msg': str(e)[:200]}
        return None

    def _dump_order(self, case, grid, items):
        """observe_at: order of metadata in dumps."""
        hs = self.hszinc
        want = [p[0] for p in items]
        if case['class'] == 'gcols' and not want:
            return None            # a grid without columns cannot be dumped at all (not an ordering matter)
        try:
            z = hs.dump(grid, mode=hs.MODE_ZINC)
            j = json.loads(hs.dump(grid, mode=hs.MODE_JSON))
        except Exception as e:
            return 'dump-order', {'what': 'dump raised', 'exc': type(e).__name__, 'msg': str(e)[:200]}
        lines = z.split('\n')
        if case['class'] == 'gcols':
            if not want:
                return None        # a grid without columns cannot be dumped at all (not an ordering matter)
            zk = [part.split(' ')[0] for part in lines[1].split(',')]
            jk = [c['name'] for c in j['cols']]
        elif case['class'] == 'gmeta':
            toks = lines[0].split(' ')[1:]
            zk = [t.split(':')[0] for t in toks]
            jk = [k for k in j['meta'].keys() if k != 'ver']
        else:
            first = lines[1].split(',')[0]
            zk = [t.split(':')[0] for t in first.split(' ')[1:]]
            jk = [k for k in j['cols'][0].keys() if k != 'name']
        if zk != want:
            return 'dump-order', {'zinc_keys': zk, 'model': want, 'line': lines[:2]}
        if jk != want:
            return 'dump-order', {'json_keys': jk, 'model': want}
        return None

    def execute(self, case):
        stats = {}
        events = []
        stats['class.' + case['class']] = 1
        m, grid, refuses = self._build(case, stats)
        # a second, independent map of the same kind (own grid where applicable) receives part of the operations:
        # state shared between instances by mistake shows up as the *other* map changing
        two = bool(case.get('two'))
        worlds = [[m, grid, refuses, None]]
        if two:
            m2, grid2, refuses2 = self._build(case, stats)
            worlds.append([m2, grid2, refuses2, None])
        keys = KEYS[:case['nkeys']]
        if case.get('falsy_key'):
            keys = [''] + keys[1:]
        elif case.get('numeric_keys'):
            keys = NUM_KEYS[:case['nkeys']]
        items = []
        for k_, v_ in case.get('init', []):
            hit = [p for p in items if p[0] == k_]
            if hit:
                hit[0][1] = mkval(v_)       # repeated key in the initial content: replaced in place
            else:
                items.append([k_, mkval(v_)])
        for wd in worlds:
            wd[3] = [list(p) for p in items]
        viol = None
        skeleton = [case['class']]
        ok_mut = 0
        ok_pos = 0
        prev_kind = None
        bad = self._observe(m, items, keys)
        if bad:
            viol = {'clause': 'init-' + bad[0], 'detail': {'step': -1, 'init': case.get('init'), 'why': bad[1]}}
        steps = 0
        for step, o in enumerate(case['ops']):
            if viol:
                break
            steps += 1
            if 'raise_at' in o:
                stats['fault.pair_source_fails_midway'] = stats.get('fault.pair_source_fails_midway', 0) + 1
            w = (o.get('m', 0) % len(worlds)) if two else 0
            m, grid, refuses, items = worlds[w]
            outs = self._outcomes(items, o, refuses)
            # ---- quiet steps: in runs with a sparse observation cadence the map is NOT looked at between
            # operations (a look may itself repair or hide state: lazily swept entries, caches filled by index());
            # only operations with a single acceptable outcome can be stepped blindly
            oe = case.get('observe_every', 1)
            last_step = step == len(case['ops']) - 1
            if oe != 1 and not last_step and not (oe and step % oe == oe - 1):
                oks_ = [x for x in outs if x[0] == 'ok']
                raises_ = [x for x in outs if x[0] == 'raise']
                if (len(oks_) == 1 and not raises_) or (not oks_ and len(raises_) == 1):
                    exc = None
                    ret = None
                    try:
                        ret = self._apply(m, o)
                    except Exception as e:
                        exc = e
                    fl = self._flavour(o)
                    if exc is not None:
                        ename = type(exc).__name__
                        events.append((step, fl, 'raise', ename))
                        skeleton.append(fl + '!')
                        ok_class = raises_ and any(n == ename or n in [c.__name__ for c in type(exc).__mro__] for n in raises_[0][1])
                        if not ok_class:
                            viol = {'clause': 'exc-class' if raises_ else 'exc',
                                    'detail': {'step': step, 'op': o, 'exc': ename, 'msg': str(exc)[:200], 'quiet_step': True}}
                            break
                        items = raises_[0][2]        # unchanged for a single operation, prefix applied for update/extend
                    else:
                        events.append((step, fl, 'ok', repr(ret) if o['op'] in ('pop', 'pop_at', 'popitem', 'setdefault') else None))
                        skeleton.append(fl)
                        if not oks_:
                            viol = {'clause': 'not-refused', 'detail': {'step': step, 'op': o, 'expected': sorted(raises_[0][1]), 'quiet_step': True}}
                            break
                        x = oks_[0]
                        if not (x[2] is om.ANY or x[2] == ret or (isinstance(x[2], tuple) and tuple(x[2]) == ret)):
                            viol = {'clause': 'retval', 'detail': {'step': step, 'op': o, 'returned': repr(ret), 'expected': repr(x[2]), 'quiet_step': True}}
                            break
                        if canon_items(x[1]) != canon_items(items):
                            ok_mut += 1
                            if o['op'] in POSITIONAL and (o['op'] != 'add' or 'index' in o or 'pos_key' in o):
                                ok_pos += 1
                        items = x[1]
                    worlds[w][3] = items
                    stats['quiet_steps'] = stats.get('quiet_steps', 0) + 1
                    continue
            try:
                before = [[k, v] for k, v in m.items()]
            except Exception as e:      # "every key yielded by iteration can be read": a map that cannot be listed is broken
                viol = {'clause': 'observer', 'detail': {'step': step, 'op': o, 'exc': type(e).__name__, 'msg': str(e)[:200],
                                                         'why': 'items() raised before the operation', 'model': items}}
                break
            exc = None
            ret = None
            try:
                ret = self._apply(m, o)
            except Exception as e:
                exc = e
            try:
                got = [[k, v] for k, v in m.items()]
            except Exception as e:
                viol = {'clause': 'observer', 'detail': {'step': step, 'op': o, 'exc': type(e).__name__,
                                                         'msg': str(e)[:200], 'before': before}}
                break
            fl = self._flavour(o)
            if exc is not None:
                ename = type(exc).__name__
                acc = [x for x in outs if x[0] == 'raise' and any(
                    n == ename or n in [c.__name__ for c in type(exc).__mro__] for n in x[1])]
                events.append((step, fl, 'raise', ename))
                skeleton.append(fl + '!')
                stats['refusal.' + o['op']] = stats.get('refusal.' + o['op'], 0) + 1
                if not acc:
                    if any(x[0] == 'raise' for x in outs):
                        clause = 'exc-class'
                    else:
                        clause = 'exc'
                    viol = {'clause': clause, 'detail': {'step': step, 'op': o, 'exc': ename, 'msg': str(exc)[:200],
                                                         'before': before, 'after': got,
                                                         'acceptable': [[x[0], sorted(x[1]) if x[0] == 'raise' else x[1]] for x in outs][:4]}}
                    break
                hit = [x for x in acc if x[2] is not PERMUTATION and x[2] == got]
                if not hit and any(x[2] is PERMUTATION for x in acc) and len(set(map(repr, [p[0] for p in got]))) == len(got) \
                        and sorted(canon_items(got), key=repr) == sorted(canon_items(before), key=repr):
                    hit = [('raise', acc[0][1], got)]
                acc = hit or [x for x in acc if x[2] is not PERMUTATION] or acc
                if got != acc[0][2]:
                    viol = {'clause': 'refused-changed', 'detail': {'step': step, 'op': o, 'exc': ename,
                                                                    'before': before, 'after': got, 'expected_after': acc[0][2]}}
                    break
                items = acc[0][2]
            else:
                oks = [x for x in outs if x[0] == 'ok']
                events.append((step, fl, 'ok', repr(ret) if o['op'] in ('pop', 'pop_at', 'popitem', 'setdefault') else None))
                skeleton.append(fl)
                if not oks:
                    viol = {'clause': 'not-refused', 'detail': {'step': step, 'op': o, 'before': before, 'after': got,
                                                                'expected': sorted(outs[0][1])}}
                    break
                match = [x for x in oks if canon_items(x[1]) == canon_items(got)]
                if not match:
                    same = [x for x in oks if sorted(canon_items(x[1])) == sorted(canon_items(got))]
                    clause = 'order' if same else 'content'
                    if len(set(p[0] for p in got)) != len(got):
                        clause = 'dupkeys'
                    viol = {'clause': clause, 'detail': {'step': step, 'op': o, 'before': before, 'after': got,
                                                         'model_accepts': [x[1] for x in oks][:4]}}
                    break
                rmatch = [x for x in match if x[2] is om.ANY or x[2] == ret or (isinstance(x[2], tuple) and tuple(x[2]) == ret)]
                if not rmatch:
                    viol = {'clause': 'retval', 'detail': {'step': step, 'op': o, 'returned': repr(ret),
                                                           'expected': repr(match[0][2]), 'before': before}}
                    break
                if got != before:
                    ok_mut += 1
                    if o['op'] in POSITIONAL and (o['op'] != 'add' or 'index' in o or 'pos_key' in o):
                        ok_pos += 1
                    if prev_kind is not None:
                        key = 'pair.%s>%s' % (prev_kind, o['op'])
                        stats[key] = 1
                    prev_kind = o['op']
                    if o['op'] == 'add' and o['k'] in [p[0] for p in before] and ('index' in o or 'pos_key' in o):
                        stats['probe.relocation'] = stats.get('probe.relocation', 0) + 1
                        bk = [p[0] for p in before]
                        if 'pos_key' in o and o['pos_key'] != o['k'] and bk.index(o['pos_key']) > bk.index(o['k']):
                            stats['probe.relocation_to_later_key'] = stats.get('probe.relocation_to_later_key', 0) + 1
                items = rmatch[0][1]
            worlds[w][3] = items
            bad = self._observe(m, items, keys)
            if bad:
                viol = {'clause': bad[0], 'detail': {'step': step, 'op': o, 'before': before, 'why': bad[1]}}
                break
            if two:
                om_, og_, orf_, oitems = worlds[1 - w]
                bad = self._observe(om_, oitems, keys)
                if bad:
                    viol = {'clause': 'other-instance-changed', 'detail': {'step': step, 'op': o, 'why': bad[1],
                                                                           'note': 'the operation was applied to map %d; map %d changed' % (w, 1 - w)}}
                    break
            if grid is not None and (step % 3 == 2 or step == len(case['ops']) - 1):
                bad = self._dump_order(case, grid, items)
                stats['dump_order_checks'] = stats.get('dump_order_checks', 0) + 1
                if bad:
                    viol = {'clause': bad[0], 'detail': {'step': step, 'op': o, 'why': bad[1]}}
                    break
        skeleton.append(len(items))
        return {'viol': viol, 'digest': rng.digest(events), 'stats': stats,
                'distinct': ['/'.join(map(str, skeleton))],
                'nontrivial': ok_mut >= 2 and ok_pos >= 1 and not viol, 'steps': steps}

    # ---------------------------------------------------------------- shrink
    def simplify(self, case):
        # drop the initial content, drop the validator, then simplify single ops
        if case.get('init'):
            for sub in ([], case['init'][:-1]):
                c = copy.deepcopy(case)
                c['init'] = sub
                yield c
        if case.get('validator'):
            c = copy.deepcopy(case)
            c['validator'] = None
            yield c
        if case['class'] != 'sd' and not any(o['op'] in ('append', 'extend') for o in case['ops']):
            c = copy.deepcopy(case)
            if case['class'] == 'mo':
                c['class'] = 'sd'
                yield c
        for j, o in enumerate(case['ops']):
            for field in ('after', 'replace', 'default'):
                if field in o:
                    c = copy.deepcopy(case)
                    del c['ops'][j][field]
                    yield c
            if o['op'] in ('update', 'extend') and len(o['pairs']) > 1:
                c = copy.deepcopy(case)
                c['ops'][j]['pairs'] = o['pairs'][:-1]
                yield c
            if isinstance(o.get('v'), dict) and 'list' in o['v']:
                c = copy.deepcopy(case)
                c['ops'][j]['v'] = o['v']['list']
                yield c
            if isinstance(o.get('v'), dict) and 'cml' in o['v']:
                c = copy.deepcopy(case)
                c['ops'][j]['v'] = {'cm': o['v']['cml']}
                yield c

    def localise(self, case):
        if case.get('observe_every', 1) != 1 or case.get('two'):
            c = {k: v for k, v in case.items() if k != 'two'}
            c['observe_every'] = 1
            yield c
            if case.get('two'):
                yield dict(c, two=True)

    def post_sweep(self, agg):
        pairs = [k for k in agg.stats if k.startswith('pair.')]
        kinds = len(MUTATORS)
        out = {'op_kind_pairs_reached': len(pairs), 'op_kind_pairs_possible': kinds * kinds,
               'note_pairs': 'consecutive successful state-changing op kinds (a>b) seen at least once'}
        for k in pairs:
            del agg.stats[k]
        return out


CHECK = C16()
