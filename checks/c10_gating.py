"""C10 -- version gating: a pre-3.0 grid never carries 3.0-only data, in memory or on the wire.

Engine `hist` + `wire`.  History runs store values of every kind through every entry path
of a Grid in seeded order and compare, after every step, with a five-line decision model
(accepts(version) <=> version >= 3.0 under hszinc's own version order); both writers are
asked to dump after every step and their output is handed to both readers.  Wire runs let
a stub peer emit a small ZINC / JSON document carrying one 3.0-only construct while the
channel's `verskew` fault rewrites the declared version; the reader's accept/reject must
equal the model's and the Grid's and the writers' decision for the same version string.
"""
import collections
import copy
import json
import warnings

from sim import rng
from sim.base import BaseCheck

VERSIONS = [None, '2.0', '3.0', '2.5', '3.0.0', '1.0', '4.0', '2', '2.0.0', '3', '2.0a', '1.9z']
V3_KINDS = ['na', 'list', 'dict', 'grid', 'xstr']
COLS = ['a', 'b']


def random_version(r):
    """An arbitrary dotted version with an optional text suffix (the statement includes non-official
    version strings); the model decides them all the same way: accepted iff greater than 2.0."""
    nums = [str(r.choice([0, 1, 2, 2, 2, 3, 3, 4, 10, 20])) for _ in range(r.choice([1, 2, 2, 3, 4]))]
    return '.'.join(nums) + r.choice(['', '', '', 'a', 'b', '-rc1', 'beta', 'z'])


def is_v3(spec):
    if spec == 'na':
        return True
    if isinstance(spec, dict):
        return any(k in spec for k in ('list', 'dict', 'grid', 'xstr'))
    return False


class FlakyFailure(Exception):
    pass


class FlakyStr(str):
    """A string id whose str() fails the first time it is asked, and only then."""
    _asked = False

    def __str__(self):
        if not self._asked:
            self._asked = True
            raise FlakyFailure('str(id) failed')
        return str.__str__(self)


class Unwritable(object):
    pass


def failed_write(hs, nest):
    """Both writers are asked for a 3.0 value that holds something they cannot write, inside a list or a dict, as a
    scalar and as a grid cell; every call fails (with whatever exception)."""
    val = [1, Unwritable()] if nest == 'list' else {'k': Unwritable()}
    g = hs.Grid(version='3.0', columns=[('a', [])])
    g.append({'a': val})
    for mode in (hs.MODE_JSON, hs.MODE_ZINC):
        for call in (lambda: hs.dump_scalar(val, mode=mode, version='3.0'), lambda: hs.dump(g, mode=mode)):
            try:
                call()
            except Exception:
                pass


def mkv(hs, spec):
    if spec == 'na':
        return hs.NA
    if spec == 'marker':
        return hs.MARKER
    if spec == 'remove':
        return hs.REMOVE
    if spec == 'none':
        return None
    if isinstance(spec, dict):
        if 'int' in spec:
            return spec['int']
        if 'str' in spec:
            return spec['str']
        if 'bool' in spec:
            return spec['bool']
        if 'ref' in spec:
            return hs.Ref(spec['ref'])
        if 'qty' in spec:
            return hs.Quantity(spec['qty'][0], spec['qty'][1])
        if 'uri' in spec:
            return hs.Uri(spec['uri'])
        if 'coord' in spec:
            return hs.Coordinate(spec['coord'][0], spec['coord'][1])
        if 'list' in spec:
            v = [mkv(hs, s) for s in spec['list']]
            return _sub(list)(v) if spec.get('sub') else v
        if 'dict' in spec:
            v = {k: mkv(hs, s) for k, s in spec['dict'].items()}
            return collections.OrderedDict(v) if spec.get('sub') else v
        if 'xstr' in spec:
            cls = _sub(hs.XStr) if spec.get('sub') else hs.XStr
            return cls(spec['xstr'][0], spec['xstr'][1])
        if 'grid' in spec:
            g = (_sub(hs.Grid) if spec.get('sub') else hs.Grid)(version=spec['grid'].get('ver', '3.0'), columns=[('q', [])])
            g.append({'q': spec['grid'].get('n', 1)})
            return g
    raise AssertionError(spec)


_SUBS = {}


def _sub(base):
    """A trivial subclass of a library / builtin type: still that kind of value for every isinstance test."""
    if base not in _SUBS:
        _SUBS[base] = type('My' + base.__name__, (base,), {})
    return _SUBS[base]


def has_v3_value(hs, v):
    return v is hs.NA or isinstance(v, (list, dict, hs.Grid, hs.XStr))


def grid_has_v3(hs, g):
    for v in g.metadata.values():
        if has_v3_value(hs, v):
            return 'metadata'
    for c, meta in g.column.items():
        for v in meta.values():
            if has_v3_value(hs, v):
                return 'column metadata'
    for row in g:
        for v in row.values():
            if has_v3_value(hs, v):
                return 'row'
    return None


def gen_value(r, p_v3, depth=0):
    if r.random() < p_v3:
        kind = r.choice(V3_KINDS)
        if kind == 'na':
            return 'na'
        if kind == 'list':
            v = {'list': [gen_value(r, 0.3 if depth < 1 else 0, depth + 1) for _ in range(r.choice([0, 1, 2]))]}
            if r.random() < 0.2:
                v['sub'] = True        # an instance of a subclass is still a list
            return v
        if kind == 'dict':
            v = {'dict': {('k%d' % j): gen_value(r, 0.3 if depth < 1 else 0, depth + 1) for j in range(r.choice([0, 1, 2]))}}
            if r.random() < 0.2:
                v['sub'] = True        # collections.OrderedDict
            return v
        sub = r.random() < 0.2
        if kind == 'grid':
            v = {'grid': {'ver': r.choice(['3.0', '2.0']), 'n': r.randrange(9)}}
        else:
            v = {'xstr': r.choice([['hex', 'deadbeef'], ['b64', 'aGVsbG8='], ['text', 'plain']])}
        if sub:
            v['sub'] = True
        return v
    return r.choice([{'int': r.randrange(100)}, {'str': r.choice(['x', 'y z', ''])}, 'marker', 'none', 'remove',
                     {'bool': True}, {'ref': 'r1'}, {'qty': [1.5, 'm']}, {'uri': 'http://x/'}, {'coord': [1.0, 2.0]}])


class C10(BaseCheck):
    pid = 'C10'
    level = 'exploration'
    isolation = 'fork'
    run_timeout_s = 120.0
    step_unit = 'grid mutations / wire deliveries, each followed by dumps in both formats (and re-parses)'
    tiers = {'quick': {'budget_s': 45, 'max_runs': 10 ** 9},
             'thorough': {'budget_s': 900, 'max_runs': 10 ** 9}}
    rule = ('history runs: grid created with version in {none,2.0,3.0,2.5,3.0.0,1.0,4.0} (constructor metadata/columns drawn too), '
            '2-12 stores of plain and 3.0-only values (NA, list, dict, nested grid, XStr, nested combinations) through every entry path '
            '(metadata set/append/extend/add_item/update/setdefault, column metadata set/append/extend, column assignment, '
            'append/insert/extend/+=/setitem, in-place row poke) in seeded order; wire runs: stub peer document (ZINC/JSON) with one '
            '3.0-only construct at grid-meta/column-meta/cell/in-list/in-dict position under a version-skewed header; scalar runs: '
            'dump_scalar/parse_scalar per kind x version x format. distinct = (class, version, sequence of (path, value kind, '
            'accepted/refused)); non-trivial = at least one 3.0-only value met the version decision (refused, or accepted with upgrade) '
            'and at least one dump was attempted afterwards / a wire delivery carried a 3.0-only construct')
    components = {
        'real': ['hszinc.grid.Grid + MetadataObject/SortableDict validator wiring', 'hszinc.zincdumper', 'hszinc.jsondumper',
                 'hszinc.zincparser (grammar selection per version)', 'hszinc.jsonparser', 'hszinc.version.Version/nearest'],
        'stub': ['peer emitting annotated ZINC/JSON documents', 'channel fault verskew (header rewritten to the peer version)',
                 'decision model accepts(v) <=> v >= 3.0', 'warnings captured'],
    }
    assumptions = [
        'accepts(version) <=> dotted number > 2.0 (1.0, 2.0 refuse; 2.5, 3.0, 3.0.0, 4.0 accept): a version between official ones is handled as the closest newer official version, the reading the repository suite pins (test_unsupported_newer)',
        'in-place mutation of a row dict (row poke) cannot be intercepted by Grid: after it only the writers are judged',
        'only kinds both dumpers support are generated; content equality of re-parsed grids is C01/C02, not checked here',
    ]

    # ---------------------------------------------------------------- generate
    def generate(self, run_seed, i, tier):
        k = rng.stream(run_seed, 'knobs')
        r = rng.stream(run_seed, 'ops')
        roll = k.random()
        if roll < 0.2:
            return {'class': 'wire', 'fmt': k.choice(['zinc', 'json']), 'ver': k.choice(VERSIONS[1:]) if k.random() < 0.7 else random_version(k),
                    'kind': k.choice(V3_KINDS), 'pos': k.choice(['gmeta', 'cmeta', 'cell', 'inlist', 'indict', 'nested', 'nested-meta']),
                    'visit': [k.choice(VERSIONS[1:]) for _ in range(k.choice([0, 1, 2]))], 'ops': [],
                    # how the document reaches the reader: text, already-decoded JSON object, or one grid of a multi-grid text
                    'api': k.choice(['text', 'text', 'obj', 'multi']),
                    # a write that fails inside a list / dict happens first (what it leaves behind must not matter)
                    'failed_write': k.random() < 0.3}
        if roll < 0.3:
            return {'class': 'scalar', 'ver': k.choice(VERSIONS[1:]) if k.random() < 0.7 else random_version(k), 'kind': k.choice(V3_KINDS),
                    'nest': k.choice(['none', 'inlist', 'indict']), 'ops': [], 'failed_write': k.random() < 0.3}
        p_v3 = k.choice([0.15, 0.3, 0.5])
        gver = k.choice(VERSIONS) if k.random() < 0.85 else random_version(k)
        ctor = {'meta': [], 'cols': {'a': [], 'b': []}, 'meta_as': k.choice(['dict', 'sd', 'mo']), 'cols_as': k.choice(['pairs', 'dict', 'mo']),
                'ver_as': k.choice(['str', 'str', 'obj'])}
        for j in range(k.choice([0, 0, 1, 2])):
            ctor['meta'].append(['m%d' % j, gen_value(r, p_v3 / 2)])
        for c in COLS:
            for j in range(k.choice([0, 0, 1])):
                ctor['cols'][c].append(['c%d' % j, gen_value(r, p_v3 / 2)])
        kinds = ['meta_set', 'meta_append', 'meta_extend', 'meta_add_item', 'meta_update', 'meta_setdefault',
                 'col_meta_set', 'col_meta_append', 'col_meta_extend', 'col_assign',
                 'append', 'insert', 'extend', 'iadd', 'setitem', 'row_poke', 'col_poke', 'derive', 'extend_grid', 'add_column',
                 'col_from_grid', 'meta_clear', 'col_meta_clear', 'failed_write', 'append_flaky_id']
        enabled = [x for x in kinds if k.random() < 0.7] or ['append']
        n = k.choice([2, 3, 4, 6, 8, 12]) if tier == 'quick' else k.choice([3, 6, 12, 20, 30])
        ops = []
        for j in range(n):
            op = r.choice(enabled)
            o = {'op': op}
            if op.startswith('meta_') and op != 'meta_clear':
                o['k'] = 'm%d' % r.randrange(4)
                if op in ('meta_extend', 'meta_update'):
                    o['pairs'] = [['m%d' % r.randrange(4), gen_value(r, p_v3)] for _ in range(r.choice([1, 2]))]
                else:
                    o['v'] = gen_value(r, p_v3)
                if op == 'meta_add_item':
                    o['index'] = r.randrange(3)
            elif op.startswith('col_') and op not in ('col_from_grid', 'col_meta_clear'):
                o['c'] = r.choice(COLS)
                if op in ('col_meta_extend', 'col_assign'):
                    o['pairs'] = [['c%d' % r.randrange(3), gen_value(r, p_v3)] for _ in range(r.choice([1, 2]))]
                else:
                    o['k'] = 'c%d' % r.randrange(3)
                    o['v'] = gen_value(r, p_v3)
            elif op == 'failed_write':
                o['nest'] = r.choice(['list', 'dict'])
            elif op == 'append_flaky_id':
                # a row whose id fails in str() the first time it is asked (index upkeep): the call may fail, the row may
                # be in or not, but what the grid holds and what it says about its version must still agree
                o['row'] = {c: gen_value(r, p_v3) for c in COLS if r.random() < 0.9}
                o['lookup_first'] = r.random() < 0.5
            elif op in ('append', 'insert', 'setitem'):
                o['row'] = {c: gen_value(r, p_v3 / 2) for c in COLS if r.random() < 0.9}
                if r.random() < 0.25:
                    o['row']['x'] = gen_value(r, p_v3)       # a key that is not (yet) a declared column
                o['i'] = r.randrange(3)
            elif op == 'col_from_grid':
                # the column metadata object of ANOTHER grid (made by its constructor) is assigned into this one
                o['c'] = r.choice(COLS)
                o['src_ver'] = r.choice(['3.0', '3.0', None, '4.0'])
                o['pairs'] = [['c%d' % r.randrange(3), gen_value(r, 0.6)] for _ in range(r.choice([1, 2]))]
                o['how'] = r.choice(['setitem', 'add_item', 'update'])
            elif op == 'col_meta_clear':
                o['c'] = r.choice(COLS)
            elif op == 'add_column':
                o['c'] = 'x'
                o['pairs'] = [['c0', gen_value(r, p_v3 / 2)]] if r.random() < 0.3 else []
            elif op in ('extend', 'iadd'):
                o['rows'] = [{c: gen_value(r, p_v3 / 3) for c in COLS} for _ in range(r.choice([1, 2, 3, 3, 12, 40]))]
            elif op == 'row_poke':
                o['i'] = r.randrange(3)
                o['c'] = r.choice(COLS)
                o['v'] = gen_value(r, 0.8)
            elif op == 'col_poke':
                o['c'] = r.choice(COLS)
                o['k'] = 'c%d' % r.randrange(3)
                o['v'] = gen_value(r, 0.8)
            elif op == 'derive':
                o['how'] = r.choice(['slice', 'slice-rev', 'filter-limit', 'columns-of', 'filter-expr', 'deepcopy', 'deepcopy'])
                o['ver'] = r.choice(VERSIONS[1:])
            elif op == 'extend_grid':
                # rows arrive as a Grid OBJECT built under another version (not as a list of dicts)
                o['src_ver'] = r.choice(['3.0', '3.0', '4.0', None, '2.0'])
                o['rows'] = [{c: gen_value(r, p_v3 / 2) for c in COLS} for _ in range(r.choice([1, 2, 3]))]
                o['how'] = r.choice(['extend', 'iadd', 'slice-of-src'])
            ops.append(o)
        return {'class': 'history', 'gver': gver, 'ctor': ctor, 'ops': ops,
                'reparse_every': k.choice([0, 3, 5])}

    # ---------------------------------------------------------------- execute
    def execute(self, case):
        import io
        import sys
        old = sys.stdout
        sys.stdout = io.StringIO()
        try:
            with warnings.catch_warnings(record=True) as w:
                warnings.simplefilter('always')
                if case['class'] == 'wire':
                    res = self._exec_wire(case)
                elif case['class'] == 'scalar':
                    res = self._exec_scalar(case)
                else:
                    res = self._exec_history(case)
                res['stats']['probe.version_warnings'] = len(w)
                return res
        finally:
            sys.stdout = old

    @staticmethod
    def accepts(ver):
        """The decision model, independent of hszinc: official versions are 2.0 and 3.0; a version
        between or beyond them is handled as the closest newer official one when there is one
        (2.5 -> 3.0, 1.0 -> 2.0) and as the newest otherwise (4.0 -> 3.0).  The repository's own
        suite pins this reading (tests/test_parser.py::test_unsupported_newer parses a list
        under ver:"2.5").  So: accept <=> the dotted number is greater than 2.0."""
        import re
        m = re.match(r'^(\d[\d.]*)', str(ver))
        nums = [int(p or 0) for p in m.group(1).split('.')]
        while len(nums) < 2:
            nums.append(0)
        rest = str(ver)[len(m.group(1)):]
        return tuple(nums) > (2, 0) + (0,) * (len(nums) - 2) or (tuple(nums[:2]) == (2, 0) and not any(nums[2:]) and bool(rest))

    # ---- history
    def _snapshot(self, g):
        return (str(g.version), [(k, id(v)) for k, v in g.metadata.items()],
                [(c, [(k, id(v)) for k, v in m.items()]) for c, m in g.column.items()],
                [(id(r), sorted((k, id(v)) for k, v in r.items())) for r in g])

    def _exec_history(self, case):
        hs = self.hszinc
        from hszinc.sortabledict import SortableDict
        stats = {'class.history': 1}
        events = []
        gver = case.get('gver')
        explicit = gver is not None
        pre3 = explicit and not self.accepts(gver)
        stats['version.%s' % gver] = 1
        ctor = case['ctor']
        meta_pairs = [(k, mkv(hs, s)) for k, s in ctor['meta']]
        cols = []
        for c in COLS:
            pairs = [(k, mkv(hs, s)) for k, s in ctor['cols'].get(c, [])]
            cols.append((c, dict(pairs) if ctor.get('cols_as') == 'dict' else
                         hs.MetadataObject(pairs) if ctor.get('cols_as') == 'mo' else pairs))
        ctor_v3 = any(is_v3(s) for _, s in ctor['meta']) or any(is_v3(s) for c in COLS for _, s in ctor['cols'].get(c, []))
        skeleton = ['history', str(gver)]
        met_decision = 0
        dumps = 0
        viol = None
        steps = 0

        def fail(clause, **d):
            return {'clause': clause, 'detail': d}

        g = None
        try:
            md = dict(meta_pairs) if ctor.get('meta_as') == 'dict' else \
                hs.MetadataObject(meta_pairs) if ctor.get('meta_as') == 'mo' else SortableDict(meta_pairs)
            vers = hs.Version(gver) if (gver is not None and ctor.get('ver_as') == 'obj') else gver
            g = hs.Grid(version=vers, metadata=md, columns=cols)
            if pre3 and ctor_v3:
                viol = fail('not-refused', step='ctor', version=gver, why='constructor accepted a 3.0-only value for a pre-3.0 grid',
                            where=grid_has_v3(hs, g))
        except ValueError as e:
            if not (pre3 and ctor_v3):
                viol = fail('refused-valid', step='ctor', version=gver, exc=str(e)[:200])
            else:
                stats['fault.refused_store'] = 1
                met_decision += 1
            g = None
        except Exception as e:
            viol = fail('exc-type', step='ctor', exc=type(e).__name__, msg=str(e)[:200])
            g = None
        skeleton.append('ctor:%s' % ('v3' if ctor_v3 else 'plain'))
        if g is None or viol:
            return {'viol': viol, 'digest': rng.digest(skeleton), 'stats': stats, 'distinct': ['/'.join(skeleton)],
                    'nontrivial': False, 'steps': 1}
        if ctor_v3:
            met_decision += 1
        poked = False
        foreign_cols = set()
        upgraded = False
        last_ver = hs.Version(str(g.version))

        for step, o in enumerate(case['ops']):
            if viol:
                break
            steps += 1
            op = o['op']
            specs = []
            if 'v' in o:
                specs.append(o['v'])
            if op in ('col_assign', 'add_column', 'col_from_grid'):
                specs.extend(dict((k, s) for k, s in o['pairs']).values())   # a dict literal: last value per key wins
            else:
                for p in o.get('pairs', []):
                    specs.append(p[1])
            if 'row' in o:
                specs.extend(o['row'].values())
            for rw in o.get('rows', []):
                specs.extend(rw.values())
            v3 = any(is_v3(s) for s in specs)
            before = self._snapshot(g)
            nrows = len(g)
            exc = None
            skipped = False
            shared_store = False
            try:
                if op == 'meta_set':
                    g.metadata[o['k']] = mkv(hs, o['v'])
                elif op == 'meta_append':
                    g.metadata.append(o['k'], mkv(hs, o['v']))
                elif op == 'meta_extend':
                    g.metadata.extend([(k, mkv(hs, s)) for k, s in o['pairs']])
                elif op == 'meta_add_item':
                    g.metadata.add_item(o['k'], mkv(hs, o['v']), index=o.get('index', 0))
                elif op == 'meta_update':
                    g.metadata.update([(k, mkv(hs, s)) for k, s in o['pairs']])
                elif op == 'meta_setdefault':
                    if o['k'] in g.metadata:
                        v3 = False
                    g.metadata.setdefault(o['k'], mkv(hs, o['v']))
                elif op.startswith('col_meta_') and op != 'col_meta_clear' and not hasattr(g.column[o['c']], 'add_item'):
                    skipped = True    # the column holds a plain dict (col_assign): stores into it bypass the grid by construction
                elif op.startswith('col_meta_') and op != 'col_meta_clear' and o['c'] in foreign_cols:
                    # this column's metadata OBJECT was taken from another grid and is still shared with it: a store
                    # through it is checked against that other grid (one object, one validator).  Like an in-place
                    # row edit, this grid cannot see it; only the writers are judged afterwards.
                    if op == 'col_meta_set':
                        g.column[o['c']][o['k']] = mkv(hs, o['v'])
                    elif op == 'col_meta_append':
                        g.column[o['c']].append(o['k'], mkv(hs, o['v']))
                    else:
                        g.column[o['c']].extend([(k, mkv(hs, s)) for k, s in o['pairs']])
                    if v3:
                        poked = True
                        stats['fault.store_through_shared_column_metadata'] = stats.get('fault.store_through_shared_column_metadata', 0) + 1
                    shared_store = True
                elif op == 'col_meta_set':
                    g.column[o['c']][o['k']] = mkv(hs, o['v'])
                elif op == 'col_meta_append':
                    g.column[o['c']].append(o['k'], mkv(hs, o['v']))
                elif op == 'col_meta_extend':
                    g.column[o['c']].extend([(k, mkv(hs, s)) for k, s in o['pairs']])
                elif op == 'col_assign':
                    g.column[o['c']] = {k: mkv(hs, s) for k, s in o['pairs']}
                elif op == 'append':
                    g.append({c: mkv(hs, s) for c, s in o['row'].items()})
                elif op == 'failed_write':
                    failed_write(hs, o.get('nest'))
                    stats['fault.write_fails_inside_list_or_dict'] = stats.get('fault.write_fails_inside_list_or_dict', 0) + 1
                elif op == 'append_flaky_id':
                    if o.get('lookup_first'):
                        g.get('no-such-id')          # an id index exists from here on
                    row = {c: mkv(hs, s) for c, s in o['row'].items()}
                    row['id'] = FlakyStr('fl%d' % step)
                    g.append(row)
                elif op == 'insert':
                    g.insert(min(o['i'], nrows), {c: mkv(hs, s) for c, s in o['row'].items()})
                elif op == 'setitem':
                    if nrows == 0:
                        skipped = True
                    else:
                        g[o['i'] % nrows] = {c: mkv(hs, s) for c, s in o['row'].items()}
                elif op == 'extend_grid':
                    src = hs.Grid(version=o.get('src_ver'), columns=[(c, []) for c in COLS])
                    try:
                        for rw in o['rows']:
                            src.append({c: mkv(hs, s) for c, s in rw.items()})
                    except ValueError:
                        skipped = True      # the source grid itself (rightly) refused a row: nothing to hand over
                    if not skipped:
                        arg = src[:] if o.get('how') == 'slice-of-src' else src
                        if o.get('how') == 'iadd':
                            g += arg
                        else:
                            g.extend(arg)
                elif op == 'extend':
                    g.extend([{c: mkv(hs, s) for c, s in rw.items()} for rw in o['rows']])
                elif op == 'iadd':
                    g += [{c: mkv(hs, s) for c, s in rw.items()} for rw in o['rows']]
                elif op == 'meta_clear':
                    g.metadata.clear()               # emptied, not replaced: what is stored next is still subject to the version
                elif op == 'col_meta_clear':
                    if hasattr(g.column[o['c']], 'clear'):
                        g.column[o['c']].clear()
                    else:
                        skipped = True
                elif op == 'col_from_grid':
                    try:
                        src = hs.Grid(version=o.get('src_ver'), columns=[(o['c'], [(k_, mkv(hs, s_)) for k_, s_ in o['pairs']])])
                    except ValueError:
                        src = None
                    if src is None:
                        skipped = True
                    elif o.get('how') == 'add_item':
                        g.column.add_item(o['c'], src.column[o['c']])
                    elif o.get('how') == 'update':
                        g.column.update(src.column)
                    else:
                        g.column[o['c']] = src.column[o['c']]
                    if not skipped:
                        foreign_cols.add(o['c'])
                elif op == 'add_column':
                    # a column declared after rows already carry values under that key
                    g.column[o['c']] = {k_: mkv(hs, s_) for k_, s_ in o['pairs']}
                elif op == 'col_poke':
                    # in-place edit of a plain dict previously assigned as column metadata: like a row
                    # poke, the grid cannot see it, so only the writers are judged afterwards
                    if hasattr(g.column[o['c']], 'add_item'):
                        skipped = True
                    else:
                        g.column[o['c']][o['k']] = mkv(hs, o['v'])
                        if is_v3(o['v']):
                            poked = True
                            stats['fault.in_place_column_poke'] = stats.get('fault.in_place_column_poke', 0) + 1
                elif op == 'derive':
                    # continue the history on a grid derived from this one: slices, filter results and
                    # grids built from another grid's columns carry their own explicit version
                    how = o['how']
                    if grid_has_v3(hs, g) and not self.accepts(str(g.version)):
                        skipped = True       # an in-place edit made this grid inconsistent: deriving from it is (rightly) refused
                    elif grid_has_v3(hs, g) and how == 'columns-of' and not self.accepts(o['ver']) and \
                            any(has_v3_value(hs, v) for m_ in g.column.values() for v in m_.values()):
                        skipped = True       # would (rightly) be refused by the constructor; not the point here
                    else:
                        if how == 'deepcopy':
                            ng = copy.deepcopy(g)      # same declared / undeclared version as its source
                        elif how == 'slice':
                            ng = g[:]
                        elif how == 'slice-rev':
                            ng = g[::-1]
                        elif how == 'filter-limit':
                            ng = g.filter('', 5) if nrows else g[:]
                        elif how == 'filter-expr':
                            ng = g.filter('a or not a')
                        else:
                            ng = hs.Grid(version=o['ver'], columns=g.column)
                            for row in g:
                                if self.accepts(o['ver']) or not any(has_v3_value(hs, v) for v in row.values()):
                                    ng.append(row)
                        g = ng
                        if how != 'deepcopy':
                            foreign_cols.clear()      # the constructor builds fresh metadata objects bound to the new grid;
                                                      # a deep copy copies a foreign object together with the foreign grid it answers to
                        if how != 'deepcopy':
                            gver = str(g.version)
                            explicit = True
                        pre3 = explicit and not self.accepts(gver)
                        last_ver = hs.Version(str(g.version))
                        stats['derived_grids'] = stats.get('derived_grids', 0) + 1
                elif op == 'row_poke':
                    if nrows == 0:
                        skipped = True
                    else:
                        g[o['i'] % nrows][o['c']] = mkv(hs, o['v'])
                        if is_v3(o['v']):
                            poked = True
                            stats['fault.in_place_row_poke'] = stats.get('fault.in_place_row_poke', 0) + 1
                else:
                    raise AssertionError(op)
            except Exception as e:
                exc = e
            if skipped:
                continue
            if op == 'derive' and exc is None:
                events.append((step, 'derive:' + o['how'], gver))
                skeleton.append('derive:' + o['how'])
                if poked and grid_has_v3(hs, g) is None:
                    poked = False
            kinds = sorted(set(self._kind(s) for s in specs if is_v3(s)))
            tag = '%s:%s' % (op, '+'.join(kinds) or 'plain')
            if exc is not None and isinstance(exc, FlakyFailure):
                # the row's id failed in str(): not a gating decision; the invariants below still apply
                events.append((step, tag, 'flaky'))
                skeleton.append(tag + '~')
                stats['fault.id_str_fails_once'] = stats.get('fault.id_str_fails_once', 0) + 1
            elif exc is not None:
                events.append((step, tag, type(exc).__name__))
                skeleton.append(tag + '!')
                if not isinstance(exc, ValueError):
                    viol = fail('exc-type', step=step, op=o, version=gver, exc=type(exc).__name__, msg=str(exc)[:200])
                    break
                if not (pre3 and v3):
                    viol = fail('refused-valid', step=step, op=o, version=gver, exc=str(exc)[:200],
                                why='the declared version accepts this value')
                    break
                stats['fault.refused_store'] = stats.get('fault.refused_store', 0) + 1
                met_decision += 1
                after = self._snapshot(g)
                if after != before:
                    multi = op in ('extend', 'iadd', 'extend_grid', 'meta_extend', 'meta_update', 'col_meta_extend')
                    if not multi:
                        viol = fail('refused-changed', step=step, op=o, version=gver,
                                    why='a refused single store changed the grid')
                        break
                    if grid_has_v3(hs, g) and not poked:
                        viol = fail('memory', step=step, op=o, version=gver,
                                    why='refused multi-item store left a 3.0-only value behind')
                        break
            else:
                events.append((step, tag, 'ok'))
                skeleton.append(tag)
                if v3 and op not in ('row_poke', 'col_poke') and not shared_store:
                    met_decision += 1
                    if pre3:
                        viol = fail('not-refused', step=step, op=o, version=gver, kinds=kinds,
                                    why='3.0-only value stored into a grid with an explicit pre-3.0 version',
                                    where=grid_has_v3(hs, g))
                        break
            # ---- in-memory invariants
            where = grid_has_v3(hs, g)
            cur = hs.Version(str(g.version))
            if cur < last_ver:
                viol = fail('version-decreased', step=step, op=o, was=str(last_ver), now=str(cur))
                break
            if explicit and cur != last_ver:
                viol = fail('explicit-version-changed', step=step, op=o, was=str(last_ver), now=str(cur))
                break
            last_ver = cur
            if where and not poked:
                if pre3:
                    viol = fail('memory', step=step, op=o, version=gver, where=where,
                                why='grid with explicit pre-3.0 version holds a 3.0-only value')
                    break
                if not explicit:
                    if not self.accepts(str(cur)):
                        viol = fail('no-upgrade', step=step, op=o, where=where, version=str(cur),
                                    why='unversioned grid holds a 3.0-only value but does not report 3.0')
                        break
                    if not upgraded:
                        upgraded = True
                        stats['probe.upgrades'] = stats.get('probe.upgrades', 0) + 1
            # ---- both writers, then both readers
            reparse = bool(case.get('reparse_every')) and (step % case['reparse_every'] == 0 or step == len(case['ops']) - 1)
            bad = self._dump_and_reparse(g, where, stats, reparse and len(g) <= 6)     # a ZINC re-parse costs ~10 ms per row
            dumps += 2
            if bad:
                viol = fail(bad[0], step=step, op=o, version=str(g.version), declared=gver, poked=poked, **bad[1])
                break
        return {'viol': viol, 'digest': rng.digest(events), 'stats': stats, 'distinct': ['/'.join(skeleton)],
                'nontrivial': met_decision >= 1 and dumps >= 2 and not viol, 'steps': steps}

    @staticmethod
    def _kind(spec):
        if spec == 'na':
            return 'na'
        for k in ('list', 'dict', 'grid', 'xstr'):
            if isinstance(spec, dict) and k in spec:
                return k
        return 'plain'

    def _dump_and_reparse(self, g, where, stats, reparse):
        hs = self.hszinc
        ver = hs.Version(str(g.version))
        expect_ok = not (where and not self.accepts(str(ver)))
        for mode, name in ((hs.MODE_ZINC, 'zinc'), (hs.MODE_JSON, 'json')):
            try:
                text = hs.dump(g, mode=mode)
                err = None
            except Exception as e:
                text = None
                err = e
            if expect_ok:
                if err is not None:
                    return 'writer-refused-valid', {'fmt': name, 'exc': type(err).__name__, 'msg': str(err)[:200]}
            else:
                if err is None:
                    return 'writer-emitted', {'fmt': name, 'where': where,
                                              'why': '3.0-only data written under a pre-3.0 version label',
                                              'output': text[:300]}
                if not isinstance(err, ValueError):
                    return 'writer-exc-type', {'fmt': name, 'exc': type(err).__name__, 'msg': str(err)[:200]}
                stats['fault.writer_refusal_%s' % name] = stats.get('fault.writer_refusal_%s' % name, 0) + 1
                continue
            stats['dumps_ok_%s' % name] = stats.get('dumps_ok_%s' % name, 0) + 1
            if reparse:
                try:
                    back = hs.parse(text, mode=mode)
                except Exception as e:
                    return 'reader-rejected-own-output', {'fmt': name, 'exc': type(e).__name__, 'msg': str(e)[:300],
                                                          'text': text[:300]}
                stats['reparses_%s' % name] = stats.get('reparses_%s' % name, 0) + 1
                if hs.Version(str(back.version)) != ver:
                    return 'version-changed', {'fmt': name, 'sent': str(ver), 'received': str(back.version)}
                if where and not self.accepts(str(back.version)):
                    return 'reader-accepted', {'fmt': name, 'why': 'parse result labelled pre-3.0 carries 3.0-only data'}
        return None

    # ---- wire
    ZINC_VAL = {'na': 'NA', 'list': '[1,2]', 'dict': '{x:1 y}', 'grid': '<<ver:"3.0"\nq\n1\n>>', 'xstr': 'hex("deadbeef")'}
    JSON_VAL = {'na': 'z:', 'list': ['n:1', 'n:2'], 'dict': {'x': 'n:1', 'y': 'm:'},
                'grid': {'meta': {'ver': '3.0'}, 'cols': [{'name': 'q'}], 'rows': [{'q': 'n:1'}]},
                'xstr': 'x:hex:deadbeef'}

    def _zinc_doc(self, ver, kind, pos):
        val = self.ZINC_VAL[kind]
        if pos in ('nested', 'nested-meta'):
            # the declared version under test is the one of a grid nested in a 3.0 document
            if pos == 'nested' or kind == 'grid':
                inner = '<<ver:"%s"\nq\n%s\n>>' % (ver, val)
            else:
                inner = '<<ver:"%s" im:%s\nq\n1\n>>' % (ver, val)
            return 'ver:"3.0"\na,b\n%s,2\n' % inner
        if pos == 'inlist':
            val = '[%s]' % val
        elif pos == 'indict':
            val = '{k:%s}' % val
        gmeta = ' m:%s' % val if pos == 'gmeta' else ''
        cmeta = ' cm:%s' % val if pos == 'cmeta' else ''
        cell = val if pos in ('cell', 'inlist', 'indict') else '1'
        return 'ver:"%s"%s\na%s,b\n%s,2\n' % (ver, gmeta, cmeta, cell)

    def _json_doc(self, ver, kind, pos):
        val = copy.deepcopy(self.JSON_VAL[kind])
        if pos in ('nested', 'nested-meta'):
            inner = {'meta': {'ver': ver}, 'cols': [{'name': 'q'}], 'rows': [{'q': 'n:1'}]}
            if pos == 'nested':
                inner['rows'][0]['q'] = val
            else:
                inner['meta']['im'] = val
            return json.dumps({'meta': {'ver': '3.0'}, 'cols': [{'name': 'a'}, {'name': 'b'}],
                               'rows': [{'a': inner, 'b': 'n:2'}]})
        if pos == 'inlist':
            val = [val]
        elif pos == 'indict':
            val = {'k': val}
        doc = {'meta': {'ver': ver}, 'cols': [{'name': 'a'}, {'name': 'b'}], 'rows': [{'a': 'n:1', 'b': 'n:2'}]}
        if pos == 'gmeta':
            doc['meta']['m'] = val
        elif pos == 'cmeta':
            doc['cols'][0]['cm'] = val
        else:
            doc['rows'][0]['a'] = val
        return json.dumps(doc)

    def _exec_wire(self, case):
        hs = self.hszinc
        stats = {'class.wire': 1, 'fault.verskew_%s' % case['ver']: 1}
        fmt, ver, kind, pos = case['fmt'], case['ver'], case['kind'], case['pos']
        if kind == 'grid' and pos in ('gmeta', 'cmeta') and fmt == 'zinc':
            pos = 'cell'      # a multi-line nested grid cannot sit on the header line
        # history independence of the per-version grammar memo: visit other versions first
        for v in case.get('visit', []):
            try:
                hs.parse(self._zinc_doc(v, 'na', 'cell'), mode=hs.MODE_ZINC)
            except Exception:
                pass
        text = self._zinc_doc(ver, kind, pos) if fmt == 'zinc' else self._json_doc(ver, kind, pos)
        mode = hs.MODE_ZINC if fmt == 'zinc' else hs.MODE_JSON
        want = self.accepts(ver)
        viol = None
        api = case.get('api', 'text')
        try:
            if api == 'obj' and fmt == 'json':
                g = hs.parse(json.loads(text), mode=mode)
            elif api == 'multi':
                plain = 'ver:"3.0"\nz\n1\n' if fmt == 'zinc' else json.dumps({'meta': {'ver': '3.0'}, 'cols': [{'name': 'z'}], 'rows': [{'z': 'n:1'}]})
                both = (plain + '\n' + text) if fmt == 'zinc' else '[%s,%s]' % (plain, text)
                gs = hs.parse(both, mode=mode, single=False)
                g = gs[1]
            else:
                g = hs.parse(text, mode=mode)
            got = True
            where = grid_has_v3(hs, g)
        except Exception as e:
            got = False
            exc = e
        stats['api.%s' % api] = 1
        if got != want:
            if got:
                viol = {'clause': 'reader-accepted', 'detail': {'fmt': fmt, 'version': ver, 'kind': kind, 'pos': pos,
                                                                'text': text, 'carries': where,
                                                                'why': 'reader returned a grid labelled %s carrying a 3.0-only construct' % ver}}
            else:
                viol = {'clause': 'reader-rejected-valid', 'detail': {'fmt': fmt, 'version': ver, 'kind': kind, 'pos': pos,
                                                                      'text': text, 'exc': type(exc).__name__,
                                                                      'msg': str(exc)[:300]}}
        elif got:
            if not where:
                viol = {'clause': 'reader-dropped', 'detail': {'fmt': fmt, 'version': ver, 'kind': kind, 'pos': pos, 'text': text,
                                                               'why': 'accepted document lost its 3.0-only value'}}
            elif not pos.startswith('nested') and hs.Version(str(g.version)) != hs.Version(ver):
                viol = {'clause': 'version-changed', 'detail': {'fmt': fmt, 'sent': ver, 'received': str(g.version)}}
            elif pos.startswith('nested'):
                inner = g[0].get('a')
                if not isinstance(inner, hs.Grid) or hs.Version(str(inner.version)) != hs.Version(ver) or not grid_has_v3(hs, inner):
                    viol = {'clause': 'reader-dropped', 'detail': {'fmt': fmt, 'version': ver, 'kind': kind, 'pos': pos, 'text': text,
                                                                   'why': 'nested grid lost its version or its 3.0-only value'}}
        else:
            stats['fault.reader_refusal_%s' % fmt] = 1
            if fmt == 'zinc' and not isinstance(exc, hs.zincparser.ZincParseException):
                viol = {'clause': 'reader-exc-type', 'detail': {'fmt': fmt, 'version': ver, 'kind': kind, 'pos': pos,
                                                                'exc': type(exc).__name__, 'msg': str(exc)[:200]}}
        # the Grid and the writers must take the same decision for the same version string
        if viol is None:
            viol = self._agreement(ver, kind, stats, case.get('failed_write'))
        return {'viol': viol, 'digest': rng.digest((fmt, ver, kind, pos, got)), 'stats': stats,
                'distinct': ['wire/%s/%s/%s/%s/%s' % (fmt, ver, kind, pos, ','.join(case.get('visit', [])))],
                'nontrivial': not viol, 'steps': 1}

    def _agreement(self, ver, kind, stats, failed_first=False):
        hs = self.hszinc
        want = self.accepts(ver)
        if failed_first:
            failed_write(hs, 'list' if len(ver) % 2 else 'dict')
            stats['fault.write_fails_inside_list_or_dict'] = 1
        spec = {'na': 'na', 'list': {'list': [{'int': 1}]}, 'dict': {'dict': {'x': {'int': 1}}},
                'grid': {'grid': {'ver': '3.0'}}, 'xstr': {'xstr': ['hex', 'deadbeef']}}[kind]
        got = {}
        try:
            g = hs.Grid(version=ver, columns=[('a', [])])
            g.append({'a': mkv(hs, spec)})
            got['grid'] = True
        except ValueError:
            got['grid'] = False
        except Exception as e:
            got['grid'] = 'error:' + type(e).__name__
        for mode, name in ((hs.MODE_ZINC, 'zinc-writer'), (hs.MODE_JSON, 'json-writer')):
            try:
                hs.dump_scalar(mkv(hs, spec), mode=mode, version=hs.Version(ver) if len(ver) % 2 else ver)
                got[name] = True
            except ValueError:
                got[name] = False
            except Exception as e:
                got[name] = 'error:' + type(e).__name__
        stats['agreement_checks'] = 1
        bad = {k: v for k, v in got.items() if v != want}
        if bad:
            return {'clause': 'disagreement', 'detail': {'version': ver, 'kind': kind, 'model_accepts': want, 'decisions': got}}
        return None

    # ---- scalar API
    def _exec_scalar(self, case):
        hs = self.hszinc
        ver, kind, nest = case['ver'], case['kind'], case['nest']
        stats = {'class.scalar': 1}
        want = self.accepts(ver)
        z = self.ZINC_VAL[kind]
        j = copy.deepcopy(self.JSON_VAL[kind])
        if nest == 'inlist':
            z, j = '[%s]' % z, [j]
        elif nest == 'indict':
            z, j = '{k:%s}' % z, {'k': j}
        decisions = {}
        as_bytes = len(ver + kind + nest) % 2 == 0        # the same text as str or as bytes must be decided alike
        zt = z.encode('utf-8') if as_bytes else z
        jt = json.dumps(j).encode('utf-8') if as_bytes else json.dumps(j)
        stats['scalar_api.bytes' if as_bytes else 'scalar_api.str'] = 1
        for name, call in (('zinc-reader', lambda: hs.parse_scalar(zt, mode=hs.MODE_ZINC, version=ver)),
                           ('json-reader', lambda: hs.parse_scalar(jt, mode=hs.MODE_JSON, version=ver))):
            try:
                v = call()
                decisions[name] = True
            except ValueError:
                decisions[name] = False
            except Exception as e:
                return {'viol': {'clause': 'reader-exc-type', 'detail': {'api': name, 'version': ver, 'kind': kind,
                                                                         'exc': type(e).__name__, 'msg': str(e)[:200]}},
                        'digest': '', 'stats': stats, 'distinct': [], 'nontrivial': False, 'steps': 1}
        viol = self._agreement(ver, kind, stats, case.get('failed_write'))
        bad = {k: v for k, v in decisions.items() if v != want}
        if viol is None and bad:
            viol = {'clause': 'scalar-reader-disagreement', 'detail': {'version': ver, 'kind': kind, 'nest': nest,
                                                                       'model_accepts': want, 'decisions': decisions}}
        return {'viol': viol, 'digest': rng.digest((ver, kind, nest, sorted(decisions.items()))), 'stats': stats,
                'distinct': ['scalar/%s/%s/%s' % (ver, kind, nest)], 'nontrivial': not viol, 'steps': 1}

    # ---------------------------------------------------------------- shrink
    def simplify(self, case):
        if case['class'] != 'history':
            if case.get('visit'):
                c = copy.deepcopy(case)
                c['visit'] = []
                yield c
            return
        if case['ctor']['meta']:
            c = copy.deepcopy(case)
            c['ctor']['meta'] = case['ctor']['meta'][:-1]
            yield c
        for col in COLS:
            if case['ctor']['cols'].get(col):
                c = copy.deepcopy(case)
                c['ctor']['cols'][col] = []
                yield c
        if case.get('reparse_every'):
            c = copy.deepcopy(case)
            c['reparse_every'] = 0
            yield c
        for j, o in enumerate(case['ops']):
            if len(o.get('pairs', [])) > 1:
                c = copy.deepcopy(case)
                c['ops'][j]['pairs'] = o['pairs'][:-1]
                yield c
            if len(o.get('rows', [])) > 1:
                c = copy.deepcopy(case)
                c['ops'][j]['rows'] = o['rows'][:-1]
                yield c
            if 'row' in o and len(o['row']) > 1:
                for col in list(o['row']):
                    c = copy.deepcopy(case)
                    del c['ops'][j]['row'][col]
                    yield c

    min_ops = 0


CHECK = C10()
