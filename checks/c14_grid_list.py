"""C14 -- Grid behaves as a list of row dicts under every sequence of operations."""
from checks.grid_machine import GridMachine, C14_CLAUSES


class C14(GridMachine):
    pid = 'C14'
    own_clauses = C14_CLAUSES
    rule = ('seeded histories (2-40 ops, up to 80 in thorough) over an alphabet of 5-8 row dicts on a pool of up to 4 grids '
            '(root + slices + filter results); swarm: enabled op kinds, id kinds, out-of-range rate, lookup cadence per run. '
            'distinct = (id class, sequence of (op kind, ok/refused), final pool lengths); non-trivial = at least two '
            'operations that changed a row list and at least one full observation after a mutation')
    assumptions = [
        'reference = a plain Python list holding the same row objects; exception class parity for IndexError/ValueError/TypeError',
        'multi-row extend/+= refused midway may have applied the prefix (the statement exempts it)',
        'slice assignment is not in the statement and is not generated',
        'rows carry only scalar values so that version gating (C10) cannot interfere',
    ]


CHECK = C14()
